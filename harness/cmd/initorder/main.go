// Command initorder is the child process of C17's registration-history check: a process whose only
// contact with go-critic is the sequence of operations named in its argument (L = list the registry,
// I = load the embedded rule groups, N = list and construct two hand-written checkers). It prints
// what the registry lists after every step.
package main

import (
	"encoding/json"
	"fmt"
	"go/token"
	"go/types"
	"os"
	"runtime"
	"strings"

	"github.com/go-critic/go-critic/checkers"
	"github.com/go-critic/go-critic/linter"
)

type listedChecker struct {
	Name     string   `json:"name"`
	Tags     []string `json:"tags"`
	Summary  string   `json:"summary"`
	Before   string   `json:"before"`
	After    string   `json:"after"`
	Embedded bool     `json:"embedded"`
}

func listRegistry() []listedChecker {
	var out []listedChecker
	for _, in := range linter.GetCheckersInfo() {
		out = append(out, listedChecker{in.Name, append([]string{}, in.Tags...), in.Summary, in.Before, in.After, in.EmbeddedRuleguard})
	}
	return out
}

const marker = "C17-INIT-ORDER "

func main() {
	if len(os.Args) != 2 {
		fmt.Fprintln(os.Stderr, "usage: initorder <ops>")
		os.Exit(2)
	}
	for _, op := range strings.Split(os.Args[1], "") {
		var listing []listedChecker
		switch op {
		case "L":
			listing = listRegistry()
		case "I":
			if err := checkers.InitEmbeddedRules(); err != nil {
				fmt.Println(marker + `{"op":"I","error":` + fmt.Sprintf("%q", err.Error()) + `}`)
				continue
			}
		case "N":
			infos := linter.GetCheckersInfo()
			ctx := linter.NewContext(token.NewFileSet(), types.SizesFor("gc", runtime.GOARCH))
			var hw []*linter.CheckerInfo
			for _, in := range infos {
				if !in.EmbeddedRuleguard && in.Name != "ruleguard" {
					hw = append(hw, in)
				}
			}
			if len(hw) > 0 {
				for _, in := range []*linter.CheckerInfo{hw[0], hw[len(hw)-1]} {
					if _, err := linter.NewChecker(ctx, in); err != nil {
						fmt.Println(marker + `{"op":"N","error":` + fmt.Sprintf("%q", err.Error()) + `}`)
					}
				}
			}
			listing = listRegistry()
		}
		b, _ := json.Marshal(map[string]any{"op": op, "listing": listing})
		fmt.Println(marker + string(b))
	}
}
