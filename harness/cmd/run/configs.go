package main

import "time"

const (
	qLimit = 20 * time.Minute
	tLimit = 150 * time.Minute
)

var wellTyped = "only packages with zero parse errors and zero type errors under go/types (the same checker the front-ends use) are in the domain"

// configs: tiers are bounded by case counts; the wall-clock limits only map to "inconclusive".
var configs = map[string]propCfg{
	"C01": {
		FuzzTargets: []string{"FuzzSource", "FuzzKernelBody", "FuzzSplice"},
		FuzzTime:    "3m",
		Quick:       tierCfg{Shards: 8, Checks: 400, Limit: qLimit},
		Thorough:    tierCfg{Shards: 16, Checks: 9000, Limit: tLimit},
		Floor:       200,
		Rule: "programs = maintainer-written example packages (checkers/testdata) or files of checker kernels with typed holes, followed by 0-3 typed mutations " +
			"(builtin/std-package namesakes, parentheses, bare returns, multi-value forwarding, odd declarations, literal respelling, generic builtin shadows, namesake imports, blanks), each re-validated by go/types; " +
			"all 107 checkers run long-lived with defaults plus fresh parameterised checkers under drawn parameter values. " +
			"Non-trivial = well-typed program that carries at least one mutation or is kernel-generated; distinct by source+parameter hash. Oracle: no panic / fatal error / hang.",
		Assumptions: []string{wellTyped, "a hang is only reported after the case again fails to finish alone within 150 s in a fresh process"},
	},
	"C07": {
		FuzzTargets: []string{"FuzzSource", "FuzzKernelBody", "FuzzSplice"},
		FuzzTime:    "3m",
		Quick:       tierCfg{Shards: 8, Checks: 400, Limit: qLimit},
		Thorough:    tierCfg{Shards: 16, Checks: 9000, Limit: tLimit},
		Floor:       100,
		Rule: "same program generator as C01; every diagnostic of every checker is judged: valid position inside the analysed file, at a token or comment start " +
			"(independent go/scanner pass), sane fix range, non-empty message without formatting artefacts (unless the artefact text occurs in the analysed source). " +
			"Non-trivial = a diagnostic; distinct by checker x normalised message x token class at the position.",
		Assumptions: []string{wellTyped},
	},
	"C02": {
		FuzzTargets: []string{"FuzzKernelBody"},
		FuzzTime:    "3m",
		Quick:       tierCfg{Shards: 8, Checks: 250, Limit: qLimit},
		Thorough:    tierCfg{Shards: 16, Checks: 4000, Limit: tLimit},
		Floor:       100,
		Rule: "programs as in C01 plus import-heavy files (2-6 packages each imported 1-3 times under different names in a drawn order, several imports shadowed at once). " +
			"Each program is analysed 4x by the long-lived set, once after a fresh re-parse/type-check, once by a fresh hand-written set and (1 case in 40) by a completely fresh 107-checker set; " +
			"the ordered diagnostics (line, column, offset, text, fix range, fix bytes) of every checker must be identical; GetCheckersInfo order must be stable. " +
			"Non-trivial = some checker produced >= 2 diagnostics in one file (otherwise order cannot vary); distinct by source hash.",
		Assumptions: []string{wellTyped, "a map-order dependence with >= 2 keys escapes 6 repetitions with probability <= 2^-5 per case"},
	},
	"C03": {
		Quick:    tierCfg{Shards: 8, Checks: 60, Limit: qLimit},
		Thorough: tierCfg{Shards: 16, Checks: 1000, Limit: tLimit, Chunk: 200},
		Floor:    50,
		Rule: "histories: a pool of 2-6 generated packages, a long-lived set (67 hand-written + 0-6 drawn embedded-rule checkers; all 107 in 1 case of 20), 2-30 (package,file) visits in drawn order with repeats (one step in three sweeps all files of a package in file order; one split in three cuts a kernel file at declaration boundaries and keeps the order), " +
			"driven exactly like the CLI (SetPackageInfo on package change, SetFileInfo, Check). Oracle: every visit equals a freshly created set on the same file. " +
			"Non-trivial = a visit in which a checker with per-file scratch state fired after an earlier visit with diagnostics; distinct by pool+visit sequence.",
		Assumptions: []string{wellTyped, "the fresh baseline uses the same syntax-tree objects (tree mutation is C05's subject)"},
	},
	"C05": {
		FuzzTargets: []string{"FuzzSource", "FuzzKernelBody"},
		FuzzTime:    "3m",
		Quick:       tierCfg{Shards: 8, Checks: 120, Limit: qLimit},
		Thorough:    tierCfg{Shards: 16, Checks: 2500, Limit: tLimit},
		Floor:       100,
		Rule: "programs as in C01; the 107 checkers run in a drawn permutation; a reflective structural fingerprint of the *ast.File (every field, token, position, literal, comment, object link, node identity), " +
			"a digest of types.Info, the shared Context fields and the registry metadata/parameters is compared before/after every single Check; then results are compared with registry order on a pristine re-parse. " +
			"Non-trivial = (checker, program) pair in which the checker emitted a diagnostic (its suggestion-building path ran).",
		Assumptions: []string{wellTyped, "fingerprint self-test (two dumps of an untouched tree are equal) runs in every case"},
	},
	"C20": {
		FuzzTargets: []string{"FuzzSource", "FuzzKernelBody"},
		FuzzTime:    "3m",
		Quick:       tierCfg{Shards: 8, Checks: 400, Limit: qLimit},
		Thorough:    tierCfg{Shards: 16, Checks: 8000, Limit: tLimit},
		Floor:       100,
		Rule: "programs as in C01 with 1-3 namesake mutations: an imported std package replaced by a generated user package with the same API (functions are user-defined, types alias the real ones), " +
			"a package-level generic function named like a builtin, local variables/closures/types named like builtins or std packages, renames of user objects to builtin/std names. " +
			"Oracle: for every diagnostic of an API-specific checker (subject table: hand-written checkers by hand, rule groups from the packages/builtins spelled in their Match patterns), the references spelled like the subject " +
			"inside the flagged node (or the call whose argument is flagged) must include one that go/types resolves to the real builtin / std package; otherwise violation (checker x subject x what it resolved to). " +
			"Non-trivial = a judged diagnostic in a program that re-declares such a name; distinct by checker x program x position.",
		Assumptions: []string{wellTyped, "missing a diagnostic on a namesake is never a violation; only reports are judged", "method-based subjects (types) are not judged: fake packages alias the real types"},
	},
	"C13": {
		Quick:    tierCfg{Shards: 16, Checks: 700, Limit: qLimit},
		Thorough: tierCfg{Shards: 16, Checks: 3000, Limit: tLimit},
		Floor:    100,
		Rule: "a file of a maintainer-written example package (70%) or a kernel file (30%) is cut line-wise into top-level declaration chunks (each with its leading comments and /*! expectation */ lines); " +
			"receiver-less function chunks are permuted among their slots, padding (blank lines, var, empty func, bodiless func, func with a closure, type, comment) is inserted between chunks, unrelated declarations are appended; the transformed package is re-type-checked. " +
			"Oracles: (a) the example's own expectations, re-bound by line with the rule of linttest/end2end.go, are all produced and nothing else (outside padding), with the suite's two parameter overrides; " +
			"(b) for all 107 checkers the multiset of (checker, line relative to the declaration chunk, column, message) per chunk is unchanged. Checkers whose documented subject is file-level order are exempt from (b). " +
			"Non-trivial = a non-identity transformation of a file that has expectations/diagnostics; distinct by transformed text.",
		Assumptions: []string{wellTyped, "reordering is restricted to receiver-less functions other than init/main (type-neutral in Go)", "exempt: dupImport, typeDefFirst, codegenComment, commentedOutImport"},
	},
	"C11": {
		FuzzTargets: []string{"FuzzRegexp"},
		FuzzTime:    "6m",
		Quick:       tierCfg{Shards: 8, Checks: 250, Limit: qLimit},
		Thorough:    tierCfg{Shards: 16, Checks: 12000, Limit: tLimit},
		Floor:       40,
		Rule: "patterns from a grammar over Go regexp syntax (<= 60 bytes, accepted by regexp.Compile) biased to the simplifier's rewrite sites (single-element classes incl. - ] ^ { , single-char alternations, {0,1} {1,} {0,} {0} {1} on chars/groups/captures, xx*, runs of equal atoms, removable escapes, posix/perl classes, literal alternations sharing a prefix/suffix, flag groups, named captures), 1-10 per case, rendered as \"...\" or back-quoted constants inside regexp.MustCompile/Compile. " +
			"Oracle for every proposed rewrite A -> B: B compiles; NumSubexp and SubexpNames equal; FindStringSubmatchIndex equal on ALL strings of length <= 4 over a 6-symbol alphabet built from A's own literals plus foreigners, plus random subjects up to 12 runes. " +
			"Non-trivial = a rewrite was proposed; distinct by pattern with letters renamed in order of appearance.",
		Assumptions: []string{"patterns longer than 60 bytes are outside the checker's domain", "equivalence is tested on a small-scope exhaustive subject set, not proven"},
	},
	"C17": {
		Quick:    tierCfg{Shards: 1, Checks: 60, Limit: qLimit},
		Thorough: tierCfg{Shards: 1, Checks: 600, Limit: tLimit},
		Floor:    150,
		NeedBins: true,
		Rule: "complete enumeration (exhaustive) of: every rule group and rule of checkers/rules/rules.go, re-compiled in memory with the pipeline of precompile.go and compared structurally with rulesdata.PrecompiledRules; " +
			"the bijection rule group <-> registered embedded checker with equal name/tags/summary/before/after/note; every row of docs/overview.md against the live registry and the default-selection rule; the output of `doc` of both CLIs; 21 registration histories (list / construct checkers before and after InitEmbeddedRules, each in a fresh process) against the model 'before: the hand-written checkers, after: the full registry, entry by entry'; " +
			"and a behavioural differential (engine loaded from source vs engine loaded from the shipped IR) over every file of the example corpus. A generated self-test (rapid) applies random one-character edits to string literals of the rule source in memory and requires the comparator to notice. " +
			"Non-trivial = every compared group / rule / checker / documentation row / corpus file with reports; distinct by name.",
		Assumptions: []string{"structural equality decides; a re-formatted but equal data file is not an alarm", "irconv/ruleguard of the module cache are the compilers of record"},
	},
	"C18": {
		Quick:    tierCfg{Shards: 8, Checks: 60, Limit: qLimit},
		Thorough: tierCfg{Shards: 16, Checks: 1500, Limit: tLimit},
		Floor:    50,
		Rule: "sequences of 1-5 rule files from {valid (1-3 groups with drawn tags incl. experimental, each reporting a unique marker), dangling symlink, directory matching the glob, syntax error, DSL error, unloadable import, empty}, given as an explicit list or a glob, optionally with a pattern that matches nothing; " +
			"failOn from {empty, dsl, import, all, combinations, unknown values}, the legacy failOnError flag, enable/disable lists over group names, #tags and unknown names. The dynamic-rules checker is constructed in-process through linter.NewChecker and run on a target with one call per group. " +
			"Oracle = reference model written from the statement: init fails iff a listed failure class occurs / a pattern matches nothing / failOn has an unknown value; otherwise exactly the markers of the enabled groups of the valid files are reported, independent of where faulty files sit, and no 'execution error'. " +
			"Cells the statement leaves open accept both outcomes (unreadable file under failOn=dsl|import; experimental group enabled by name only; empty enable list). " +
			"Non-trivial = a faulty and a valid file in one sequence, or both enable and disable lists given; distinct by the whole case.",
		Assumptions: []string{"rule files are loaded with cwd inside a module whose graph contains github.com/quasilyte/go-ruleguard/dsl (as real users must)"},
	},
	"C16": {
		Quick:    tierCfg{Shards: 10, Checks: 8, Limit: qLimit},
		Thorough: tierCfg{Shards: 16, Checks: 150, Limit: tLimit},
		Floor:    10,
		NeedBins: true,
		Rule: "workspaces (1-3 packages of kernel files; in-package and external test files; files with 10 header-comment variants, textbook and not; an optional main package) in four layouts: cwd = module root, cwd = a sub-package with sibling targets, workspace inside $GOPATH, and a package whose absolute path contains the working directory's path in the middle; " +
			"both CLIs, -exitCode in {0,1,2,3,42,125,255}, -checkTests, -checkGenerated, -shorterErrLocation both ways, five checker selections. " +
			"Oracle: exit status = 0 iff no diagnostic line else -exitCode; every printed location expanded (./, $GOPATH/, $GOROOT/) names an existing file; the multiset of (file,line,col,checker,message) equals the in-process expectation computed for exactly the files that should be analysed (tests filtered by name; generated decided by the Go convention). " +
			"Non-trivial = a run with >= 1 diagnostic line in a non-root layout or with a non-textbook header; distinct by workspace+layout+flags.",
		Assumptions: []string{"generated files follow the published Go convention (a `// Code generated ... DO NOT EDIT.` line comment before the package clause)", "workspace packages import the standard library only"},
	},
	"C08": {
		Quick:    tierCfg{Shards: 10, Checks: 8, Limit: qLimit},
		Thorough: tierCfg{Shards: 16, Checks: 120, Limit: tLimit},
		Floor:    10,
		NeedBins: true,
		Rule: "workspaces (1-3 packages with in-package tests and external test packages) x configurations expressible in both flag dialects (five selections given explicitly to the analyzer, parameters from the registry with boundary values, -go versions); " +
			"all four binaries (go-critic, gocritic, go-critic-analysis, gocritic-analysis) run on the same tree; the normalised multisets of (file,line,col,checker,message) must be equal and duplicate-free. " +
			"Once per shard: the checker list of `-enable-all -debug-init` equals the CLI's `-enableAll -v` list. One case in four is in-process: analyzer.Analyzer.Run on an analysis.Pass vs a direct linter run, every Warning.Suggestion must appear as exactly one TextEdit with identical Pos/End/NewText. " +
			"Non-trivial = >= 1 diagnostic in a workspace with a test variant or >= 2 packages, or an in-process case with >= 1 fix; distinct by workspace+configuration.",
		Assumptions: []string{"the stock singlechecker driver de-duplicates diagnostics of test variants", "the analyzer is always given an explicit -disable list (its documented default differs from the CLI's)"},
	},
	"C06": {
		Quick:    tierCfg{Shards: 10, Checks: 14, Limit: qLimit},
		Thorough: tierCfg{Shards: 16, Checks: 400, Limit: tLimit},
		Floor:    20,
		NeedBins: true,
		Rule: "enable/disable lists drawn over {every registered checker name, the six tags, unknown names and tags, wrong case, empty entries, duplicates} plus a focus checker that is put in/out of each list by name and by tag (the five booleans name-in-E, tag-in-E, name-in-D, tag-in-D, enable-all are drawn independently), with and without each flag, for go-critic, gocritic and the analyzer; " +
			"parameters (incl. a bogus rules/failOn for ruleguard) are given only to checkers outside the selection. One run exercises all 107 checkers, each with its own combination. " +
			"Oracle = executable specification written from the statement: the set of `X is enabled` lines (-v / -debug-init) equals {c | (all or name in E or tag in E) and name not in D and no tag in D}; absent flags mean the documented defaults of that front-end; " +
			"empty selection => non-zero exit and a message; every diagnostic line is attributed to a selected checker; initialisation never fails because of an unselected checker's parameters. Once per shard: the no-flag sets of all four binaries equal the default rule. " +
			"Non-trivial = a configuration that enables by tag and disables something (both halves of the algebra) or carries inert parameters; distinct by normalised lists x front-end.",
		Assumptions: []string{"entries with surrounding whitespace are not generated (the CLI does not trim, the analyzer does; the statement does not define it)", "the analyzer is compared against its own documented flag defaults"},
	},
	"C19": {
		FuzzTargets: []string{"FuzzSource", "FuzzKernelBody"},
		FuzzTime:    "4m",
		Quick:       tierCfg{Shards: 10, Checks: 20, Limit: qLimit},
		Thorough:    tierCfg{Shards: 16, Checks: 400, Limit: tLimit},
		Floor:       30,
		NeedBins:    true,
		Rule: "two families, half each: (1) invalid configuration from {malformed -go (11 spellings), unknown failOn, rules pattern without a match, empty selection, unparsable integer parameter} x the four binaries x 1-3 target packages (each with one diagnostic to reveal analysis with a partial set); " +
			"oracle: non-zero exit, a message naming the problem (keyword table per class), no panic/fatal/signal trace, no diagnostic line; (2) workspaces with 1-2 injected faults from {deleted brace/paren, undefined identifier, type mismatch, unloadable import, relative import, mixed package clauses, empty file, truncated file, unused variable, duplicate declarations, missing return, builtin calls with wrong arity} analysed with all checkers by each binary; " +
			"oracle: any exit status but no crash trace and completion within 150 s (re-confirmed once). Non-trivial = invalid configuration with >= 2 packages (re-entry after the first error), or any broken package; distinct by case.",
		Assumptions: []string{"an unparsable flag value rejected by the flag package itself counts as clean failure"},
	},
	"C15": {
		Quick:    tierCfg{Shards: 8, Checks: 300, Limit: qLimit},
		Thorough: tierCfg{Shards: 16, Checks: 6000, Limit: tLimit},
		Floor:    20,
		Rule: "programs as in C01 (kernels trigger every rule that names a std API or literal syntax: strings.Cut, Time.UnixMilli/UnixMicro on values and pointers, sync.Map.LoadAndDelete, 0o literals, ...), analysed with a drawn target version 1.13 .. 1.25 in both spellings (1.N, go1.N), with no version and with 1.99. " +
			"Oracle: every std function / method / literal syntax mentioned in a message or fix but absent from the analysed source is looked up in an index built from GOROOT/api/go1.*.txt on every run (about 2k function names, 1k method names; methods by minimum over receivers) and must not be newer than the target; " +
			"diagnostics with no version equal those with 1.99; the parser/comparator is checked on the full grid 1.0..1.30 x 1.0..1.30 (numeric comparison, go-prefix equivalence). " +
			"Non-trivial = a program that provokes a recommendation of an API newer than go1.13, evaluated at a target below that API's version; distinct by api x program x version.",
		Assumptions: []string{wellTyped, "GOROOT/api is the reference for 'introduced in'", "code quoted from the analysed file is not a recommendation"},
	},
	"C14": {
		Quick:    tierCfg{Shards: 8, Checks: 150, Limit: qLimit},
		Thorough: tierCfg{Shards: 16, Checks: 3000, Limit: tLimit},
		Floor:    60,
		NeedBins: true,
		Rule: "four oracles drawn per case. boundary (45%): for each of the 7 numeric thresholds a construct of exactly known measure N in 0..40 (array/struct parameters and range operands of N bytes, N results, N-statement loop-if bodies, if-else chains with N else keywords, code comments of N runes) analysed with threshold N-2..N+2; must fire iff the documented boundary says so (size/min: N >= t; maximum: N > t) and at most once. " +
			"monotonic (35%): generated programs analysed with two thresholds t1 <= t2; every diagnostic under the relaxed threshold must exist under the strict one. " +
			"sizes (8%): 3-12 random struct types (22 field types incl. padding, nesting, zero-size) - the '(N bytes)' of hugeParam's message equals unsafe.Sizeof printed by a compiled program. " +
			"plumbing (12%): parameter values given as -@checker.param flags to go-critic, gocritic or the analyzer on a generated workspace equal the in-process run with the registry default overridden. " +
			"Non-trivial = threshold within 1 of the measure, a monotonicity pair with diagnostics, a multi-field size comparison, a plumbing run with parameters; distinct by case.",
		Assumptions: []string{wellTyped, "the Go compiler's unsafe.Sizeof is the reference for sizes", "measure of an if-else chain = number of else keywords (the documented example, two of them, triggers at the default 2)", "length of a comment = runes of go/ast CommentGroup.Text() (markers stripped, trailing newline included)"},
	},
	"C09": {
		FuzzTargets: []string{"FuzzKernelBody"},
		FuzzTime:    "4m",
		Quick:       tierCfg{Shards: 8, Checks: 150, Limit: qLimit},
		Thorough:    tierCfg{Shards: 16, Checks: 3000, Limit: tLimit},
		Floor:       60,
		Rule: "programs as in C01 (kernels of every checker that carries a fix or quotes replacement code, with marker statements mark(N) drawn between the statements of multi-statement patterns; mutations: parentheses, literal respelling, forwarding, bare returns, odd declarations, std-named locals). " +
			"For every diagnostic with a machine fix, and every diagnostic whose message matches a per-checker recipe (message = prefix + A + infix + B + suffix with A the printed/source form of a node at the position), B is substituted for A: " +
			"B parses in A's category; the file parses; every marker present before is present after; the package type-checks (unused imports tolerated); the replaced expression keeps its type (up to default types); re-analysis of a fixed file does not repeat the diagnostic (non-overlapping fixes only). " +
			"Non-trivial = a diagnostic with a fix or a recipe-matched quotation; distinct by checker x origin x message class x operand shape.",
		Assumptions: []string{wellTyped, "a recipe that does not match is 'not checked', never a violation", "messages truncated by the rule engine (<...>) are skipped"},
	},
	"C10": {
		Quick:    tierCfg{Shards: 8, Checks: 20, Limit: qLimit},
		Thorough: tierCfg{Shards: 16, Checks: 600, Limit: tLimit},
		Floor:    40,
		Rule: "batches of 4-10 closed, executable kernel functions (85 kernels in 20 families: negated/compound comparisons, inc/dec shifting, range folding with decimal/octal/hex/binary/char literals, compound assignment on locals/elements/fields/maps, len/empty-string/bytes idioms, redundant slices, dereferences, lambdas incl. later mutation of the callee and method values, deferred lambdas, Sprint of strings/Stringers/nil Stringers/errors, swaps, switch true, Index->Contains and strings.Cut shapes, Yoda order, strings.Compare, *new(T), time helpers) with int/uint/float64/named float/string/[]byte/bool operands, pure or tracing. " +
			"Every rewrite proposed by the equivalence-claiming checkers (machine fix or message recipe) is applied; original and rewritten function are compiled into one program and run over the complete cross product of the focus parameters' grids (int -3..12,63,64,65,100,1000; uint 0..12,64,100 without 0 where the rule subtracts; float64 NaN, +-Inf, +-0, +-0.5, +-1, 1.5, 2, 8, 9, 10; strings incl. empty/unicode; nil/empty/non-empty slices), other parameters varying; " +
			"results, the order of traced side effects and recovered panics must be identical. Variants the compiler rejects are counted (C09's subject). " +
			"Non-trivial = an applied rewrite; distinct by checker x operand shape of A and B x operand types.",
		Assumptions: []string{"integer reasoning may assume no overflow: grid values are small", "the Go compiler and runtime are the semantic reference"},
	},
	"C12": {
		Quick:    tierCfg{Shards: 8, Checks: 15, Limit: qLimit},
		Thorough: tierCfg{Shards: 16, Checks: 400, Limit: tLimit},
		Floor:    8,
		Rule: "batches of 3-8 executable kernels for the definite-claim diagnostics: sloppyLen (always true/false; real and user-defined len; slices, strings, maps, channels), badCond (always false; constant, variable and impure left operands whose value changes between the two evaluations), offBy1 (always panics; slices, strings, byte slices, maps, user-defined len), " +
			"nilValReturn (pointers, errors, slices, maps), dupSubExpr / dupArg (same value; pure operands, floats incl. NaN, calls with changing results), caseOrder (type switches over {nil, int, string, Stringer value and pointer, error, struct} with concrete-after-interface and nil-after-interface{} orders). " +
			"Oracle: the flagged expression is instrumented in a copy of the function (claimBool / mustPanic / claimNil / sameL+sameR / unreach), compiled and run over the cross product of the focus parameters' grids; the claim must hold in every execution. " +
			"Non-trivial = a definite-claim diagnostic; distinct by checker x side-condition class x message class.",
		Assumptions: []string{"'suspicious' diagnostics are not definite claims and are not judged", "the Go runtime is the reference"},
	},
	"C04": {
		Quick:    tierCfg{Shards: 10, Checks: 16, Limit: qLimit},
		Thorough: tierCfg{Shards: 16, Checks: 400, Limit: tLimit},
		Floor:    20,
		Race:     true,
		NeedBins: true, NeedRaceBins: true,
		Rule: "the property test binary and the CLI are built with the race detector. cli-replica (55%): a generated program is analysed by the long-lived 107-checker set through a replica of cmd/go-critic's checkFile (goroutine per checker, semaphore of size k in {1,2,3,4,8,16,64,GOMAXPROCS}, disjoint result slots, barrier) with a generated start order; per-checker results must equal the sequential run. " +
			"analyzer-parallel (35%): 2-6 goroutines call analyzer.Analyzer.Run on distinct analysis.Pass values at once (cache enabled; all hand-written checkers plus four rule groups), two rounds; each pass's diagnostics and edits must equal its sequential result. " +
			"e2e (10%): the -race build of go-critic with -concurrency in {2,3,16,64} and GOMAXPROCS in {1,2,16} prints the same lines as -concurrency=1. Any race-detector report (halt_on_error, exit 66) is a violation whose signature is the two go-critic frames of the report. " +
			"Non-trivial = >= 2 checkers with diagnostics at k >= 2, or parallel passes with diagnostics; distinct by case.",
		Assumptions: []string{"interleavings are sampled, not enumerated; the race detector reports conflicting unsynchronised accesses that occur in a run largely independent of timing", wellTyped},
	},
}
