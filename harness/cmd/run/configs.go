package main

import "time"

const (
	qLimit = 20 * time.Minute
	tLimit = 150 * time.Minute
)

var wellTyped = "only packages with zero parse errors and zero type errors under go/types (the same checker the front-ends use) are in the domain"

// configs: tiers are bounded by case counts; the wall-clock limits only map to "inconclusive".
var configs = map[string]propCfg{
	"C01": {
		Quick:    tierCfg{Shards: 8, Checks: 400, Limit: qLimit},
		Thorough: tierCfg{Shards: 16, Checks: 9000, Limit: tLimit},
		Floor:    200,
		Rule: "programs = maintainer-written example packages (checkers/testdata) or files of checker kernels with typed holes, followed by 0-3 typed mutations " +
			"(builtin/std-package namesakes, parentheses, bare returns, multi-value forwarding, odd declarations, literal respelling, generic builtin shadows, namesake imports, blanks), each re-validated by go/types; " +
			"all 107 checkers run long-lived with defaults plus fresh parameterised checkers under drawn parameter values. " +
			"Non-trivial = well-typed program that carries at least one mutation or is kernel-generated; distinct by source+parameter hash. Oracle: no panic / fatal error / hang.",
		Assumptions: []string{wellTyped, "a hang is only reported after the case again fails to finish alone within 150 s in a fresh process"},
	},
	"C07": {
		Quick:    tierCfg{Shards: 8, Checks: 400, Limit: qLimit},
		Thorough: tierCfg{Shards: 16, Checks: 9000, Limit: tLimit},
		Floor:    100,
		Rule: "same program generator as C01; every diagnostic of every checker is judged: valid position inside the analysed file, at a token or comment start " +
			"(independent go/scanner pass), sane fix range, non-empty message without formatting artefacts (unless the artefact text occurs in the analysed source). " +
			"Non-trivial = a diagnostic; distinct by checker x normalised message x token class at the position.",
		Assumptions: []string{wellTyped},
	},
}
