package main

import (
	"bytes"
	"context"
	"encoding/json"
	"fmt"
	"os"
	"os/exec"
	"path/filepath"
	"regexp"
	"sort"
	"strconv"
	"strings"
	"time"

	"verif/harness/core"
)

// Native, coverage-guided fuzzing (thorough tiers). The fuzz targets of harness/props/fuzz_test.go
// apply the same oracles as the rapid checks; a worker that sees an oracle failure writes the case
// as a candidate. Nothing a fuzz worker says is believed directly: every candidate (smallest per
// signature) and every input that killed a worker is replayed by TestReplay in a fresh, ordinary
// process, and only what fails there is a violation. Go's fuzzer cannot be seeded and stops at the
// first failure, so a campaign is restarted (same corpus cache) until its time budget is used.

var reFuzzExecs = regexp.MustCompile(`execs: (\d+)`)

type fuzzStats struct {
	Execs      int
	Rounds     int
	Candidates int
	Confirmed  int
	Restarts   int
	Notes      []string
	res        core.ShardResult
	nt         map[uint64]struct{}
}

func buildFuzzTest(dir string) (string, error) {
	out := filepath.Join(dir, "props.fuzz.test")
	if _, err := os.Stat(out); err == nil {
		return out, nil
	}
	cmd := exec.Command("go", "test", "-c", "-tags", "verif", "-fuzz", "Fuzz", "-o", out, "./props")
	cmd.Dir = filepath.Join(root, "harness")
	cmd.Env = env()
	if b, err := cmd.CombinedOutput(); err != nil {
		return "", fmt.Errorf("%v\n%s", err, b)
	}
	return out, nil
}

// runFuzz runs one target for about budget; returns confirmed failures.
func runFuzz(id, target string, budget time.Duration, cfg propCfg, bin, rundir string, seed int64, isKnown func(string) bool) (fails []core.Failure, known map[string]int, inconclusive []string, st *fuzzStats) {
	st = &fuzzStats{nt: map[uint64]struct{}{}}
	st.res.Counters = map[string]int{}
	known = map[string]int{}
	fbin, err := buildFuzzTest(rundir)
	if err != nil {
		return nil, known, []string{"fuzz build: " + err.Error()}, st
	}
	base := filepath.Join(rundir, "fuzz-"+target)
	cwd := filepath.Join(base, "cwd")
	cache := filepath.Join(base, "cache")
	os.MkdirAll(cwd, 0o755)
	os.MkdirAll(cache, 0o755)
	deadline := time.Now().Add(budget)
	confirmedSigs := map[string]bool{}
	for round := 0; time.Until(deadline) > 20*time.Second && round < 12; round++ {
		st.Rounds++
		fdir := filepath.Join(base, fmt.Sprintf("round-%d", round))
		os.MkdirAll(fdir, 0o755)
		left := time.Until(deadline).Round(time.Second)
		ctx, cancel := context.WithTimeout(context.Background(), left+3*time.Minute)
		cmd := exec.CommandContext(ctx, fbin,
			"-test.run", "^$", "-test.fuzz", "^"+target+"$", "-test.fuzztime", left.String(),
			"-test.fuzzminimizetime", "20s",
			"-test.fuzzcachedir", cache, "-test.parallel", "16", "-test.timeout", "0")
		cmd.Dir = cwd
		cmd.Env = append(env(),
			"VERIF_PROP="+id, "VERIF_TIER=thorough", "VERIF_FUZZ_DIR="+fdir, "VERIF_OUT="+fdir,
			"VERIF_WORK="+filepath.Join(rundir, "work"), "VERIF_ROOT="+root, "VERIF_SEED="+strconv.FormatInt(seed, 10),
			"VERIF_BIN="+filepath.Join(rundir, "bin"))
		var buf bytes.Buffer
		cmd.Stdout = &buf
		cmd.Stderr = &buf
		runErr := cmd.Run()
		cancel()
		out := buf.String()
		if ms := reFuzzExecs.FindAllStringSubmatch(out, -1); len(ms) > 0 {
			n, _ := strconv.Atoi(ms[len(ms)-1][1])
			st.Execs += n
		}
		// worker statistics
		stats, _ := filepath.Glob(filepath.Join(fdir, "stats-*.json"))
		for _, f := range stats {
			b, err := os.ReadFile(f)
			if err != nil {
				continue
			}
			var r core.ShardResult
			if json.Unmarshal(b, &r) != nil {
				continue
			}
			st.res.Evaluations += r.Evaluations
			st.res.Rejected += r.Rejected
			for _, h := range r.Nontrivial {
				st.nt[h] = struct{}{}
			}
			for k, v := range r.Counters {
				st.res.Counters[k] += v
			}
			for s, n := range r.KnownHits {
				known[s] += n
			}
			if len(st.res.Samples) < 6 {
				for _, s := range r.Samples {
					if len(st.res.Samples) < 6 {
						st.res.Samples = append(st.res.Samples, s)
					}
				}
			}
		}
		cleanEnd := runErr == nil
		// candidates: the smallest case per signature
		type cand struct {
			path string
			size int
		}
		best := map[string]cand{}
		cands, _ := filepath.Glob(filepath.Join(fdir, "candidates", "*.json"))
		st.Candidates += len(cands)
		for _, f := range cands {
			b, err := os.ReadFile(f)
			if err != nil {
				continue
			}
			var rf struct {
				Signature string `json:"signature"`
			}
			if json.Unmarshal(b, &rf) != nil {
				continue
			}
			if c, ok := best[rf.Signature]; !ok || len(b) < c.size {
				best[rf.Signature] = cand{f, len(b)}
			}
		}
		var sigs []string
		for s := range best {
			sigs = append(sigs, s)
		}
		sort.Strings(sigs)
		newConfirmed := false
		confirm := func(path string, k int) {
			co := runShard(context.Background(), bin, id, "thorough", cfg, tierCfg{Checks: 1, Limit: 6 * time.Minute}, seed, 900+k, rundir,
				[]string{"VERIF_REPLAY=" + path, "VERIF_HANG_S=150"}, "TestReplay")
			if co.res != nil && len(co.res.Failures) > 0 {
				for _, f := range co.res.Failures {
					if isKnown(f.Signature) {
						known[f.Signature]++
						continue
					}
					if !confirmedSigs[f.Signature] {
						confirmedSigs[f.Signature] = true
						newConfirmed = true
						st.Confirmed++
						f.Message = "found by native fuzzing (" + target + "), confirmed by a plain replay in a fresh process: " + f.Message
						fails = append(fails, f)
					}
				}
				return
			}
			if co.exit != 0 {
				b, _ := os.ReadFile(path)
				var rf struct {
					Case json.RawMessage `json:"case"`
				}
				json.Unmarshal(b, &rf)
				sig, what := deathSignature(id, co.stderr)
				if reRace.MatchString(co.stderr) {
					sig, what = raceSignature(id, co.stderr), "race detector report"
				}
				if isKnown(sig) {
					known[sig]++
				} else if !confirmedSigs[sig] {
					confirmedSigs[sig] = true
					newConfirmed = true
					st.Confirmed++
					fails = append(fails, core.Failure{Signature: sig, Message: "found by native fuzzing (" + target + "), confirmed alone in a fresh process: " + what + "\n" + tail(co.stderr, 4000), Case: rf.Case})
				}
			}
		}
		for k, s := range sigs {
			if confirmedSigs[s] || k >= 24 {
				continue
			}
			confirm(best[s].path, k)
		}
		if cleanEnd {
			// budget used; candidates left without failing an input were confirmed above
			break
		}
		if len(sigs) == 0 {
			// a worker died (hang, stack overflow, fatal error): its last case is in current-<pid>.json
			curs, _ := filepath.Glob(filepath.Join(fdir, "current-*.json"))
			for k, f := range curs {
				b, err := os.ReadFile(f)
				if err != nil {
					continue
				}
				tmp := filepath.Join(fdir, fmt.Sprintf("confirm-%d.json", k))
				wb, _ := json.Marshal(map[string]any{"property": id, "signature": "confirm", "case": json.RawMessage(b)})
				os.WriteFile(tmp, wb, 0o644)
				confirm(tmp, 50+k)
			}
			if !newConfirmed {
				// a worker died (Go's fuzzer kills a worker whose input takes more than 10 s, which a
				// loaded machine can cause) and nothing it was working on fails alone with a 150 s
				// limit: an artefact of the campaign, not of the code under test. The campaign is
				// restarted with the remaining budget; it is an add-on to the rapid tiers, so running
				// out of restarts is recorded in the evidence and does not fail the check.
				st.Restarts++
				st.Notes = append(st.Notes, "worker death without a reproducible case: "+lastLine(out))
				if st.Restarts <= 4 {
					continue
				}
				st.Notes = append(st.Notes, "campaign abandoned after repeated worker deaths (incomplete)")
				break
			}
		}
		if !newConfirmed {
			// candidates that do not fail in a fresh process are worker-side artefacts as well
			st.Restarts++
			st.Notes = append(st.Notes, fmt.Sprintf("%d candidate(s) did not reproduce in a fresh process", len(sigs)))
			if st.Restarts <= 4 {
				continue
			}
			break
		}
		// a confirmed failure ends the campaign for this target (the engine would find it again)
		break
	}
	return fails, known, inconclusive, st
}

func lastLine(s string) string {
	s = strings.TrimSpace(s)
	if i := strings.LastIndexByte(s, '\n'); i >= 0 {
		s = s[i+1:]
	}
	if len(s) > 300 {
		s = s[:300]
	}
	return s
}
