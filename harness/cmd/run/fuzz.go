package main

import "verif/harness/core"

// runFuzz runs one native fuzz target for fuzzTime (thorough tier). Implemented in fuzz_native.go
// once fuzz targets exist; the stub reports nothing.
func runFuzz(id, target, fuzzTime, rundir string) (v []core.Failure, inconclusive []string, note string) {
	return nil, nil, "not run"
}
