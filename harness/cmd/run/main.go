// Command run is the driver behind /verif/run: it rebuilds the property test binary against
// /repo's working tree, runs the replay tier and the generator shards, merges their results into
// /verif/evidence/<id>.json, applies the committed known-findings list and sets the exit status
// (0 held / 1 violation / 2 inconclusive).
package main

import (
	"bytes"
	"context"
	"crypto/sha256"
	"encoding/hex"
	"encoding/json"
	"fmt"
	"os"
	"os/exec"
	"path/filepath"
	"regexp"
	"sort"
	"strconv"
	"strings"
	"sync"
	"time"

	"verif/harness/core"
)

type tierCfg struct {
	Shards int
	Checks int           // rapid.checks per shard
	Limit  time.Duration // wall-clock limit per shard (inconclusive when hit)
	// Chunk > 0: a shard's checks are spread over several consecutive processes of at most Chunk
	// checks (own seed each), so that memory retained by long runs is given back
	Chunk int
}

type propCfg struct {
	Quick, Thorough tierCfg
	Floor           int    // minimum distinct non-trivial cases (below => generator broken => exit 2)
	Level           string // evidence level
	Race            bool   // build the test binary with -race
	Steps           int    // rapid.steps for state machines
	Rule            string
	Assumptions     []string
	FuzzTargets     []string // native fuzz targets run in the thorough tier
	FuzzTime        string
	NeedBins        bool // build the four front-end binaries from /repo/cmd before the shards start
	NeedRaceBins    bool // additionally build -race variants of the two CLIs
}

func min(a, b time.Duration) time.Duration {
	if a < b {
		return a
	}
	return b
}

var root = core.Root()

// Scratch mode (development aid, never used by a registered command): VERIF_REPO=<dir> points the
// harness at another go-critic tree (a scratch worktree with a seeded change) through an alternative
// go.mod; evidence and replays then go to VERIF_SCRATCH_OUT (default $TMPDIR/verif-scratch) instead of /verif.
var (
	outRoot = root
	modFlag = ""
)

func initScratch() {
	repo := os.Getenv("VERIF_REPO")
	if repo == "" || repo == "/repo" {
		return
	}
	outRoot = os.Getenv("VERIF_SCRATCH_OUT")
	if outRoot == "" {
		outRoot = filepath.Join(os.TempDir(), "verif-scratch")
	}
	os.MkdirAll(outRoot, 0o755)
	mod, err := os.ReadFile(filepath.Join(root, "harness", "go.mod"))
	if err != nil {
		fatal2("%v", err)
	}
	alt := filepath.Join(outRoot, fmt.Sprintf("alt-%d.mod", os.Getpid()))
	text := strings.Replace(string(mod), "=> /repo", "=> "+repo, 1)
	if err := os.WriteFile(alt, []byte(text), 0o644); err != nil {
		fatal2("%v", err)
	}
	sum, _ := os.ReadFile(filepath.Join(root, "harness", "go.sum"))
	os.WriteFile(strings.TrimSuffix(alt, ".mod")+".sum", sum, 0o644)
	modFlag = " -modfile=" + alt
	fmt.Printf("SCRATCH MODE: go-critic tree %s, output under %s\n", repo, outRoot)
}

func env() []string {
	e := os.Environ()
	set := map[string]string{
		"GOFLAGS":     "-mod=mod" + modFlag,
		"GOPROXY":     "off",
		"GOSUMDB":     "off",
		"GOTOOLCHAIN": "local",
		"CGO_ENABLED": "0",
		"GONOSUMDB":   "*",
	}
	var out []string
	for _, kv := range e {
		k := kv[:strings.IndexByte(kv, '=')]
		if _, ok := set[k]; ok {
			continue
		}
		out = append(out, kv)
	}
	for k, v := range set {
		out = append(out, k+"="+v)
	}
	return out
}

func fatal2(format string, args ...any) {
	fmt.Printf("INCONCLUSIVE: "+format+"\n", args...)
	os.Exit(2)
}

func main() {
	if len(os.Args) < 2 {
		fmt.Println("usage: run check <id> <quick|thorough> | replay <path> | build")
		os.Exit(2)
	}
	initScratch()
	switch os.Args[1] {
	case "check":
		if len(os.Args) < 4 {
			fatal2("usage: run check <id> <quick|thorough>")
		}
		os.Exit(check(os.Args[2], os.Args[3]))
	case "replay":
		if len(os.Args) < 3 {
			fatal2("usage: run replay <path>")
		}
		os.Exit(replay(os.Args[2]))
	case "build":
		dir, err := os.MkdirTemp("", "verif-build-")
		if err != nil {
			fatal2("%v", err)
		}
		defer os.RemoveAll(dir)
		if _, err := buildTest(dir, false); err != nil {
			fatal2("build: %v", err)
		}
		if _, err := buildTest(dir, true); err != nil {
			fatal2("build -race: %v", err)
		}
		fmt.Println("ok")
	default:
		fatal2("unknown command %q", os.Args[1])
	}
}

func buildTest(dir string, race bool) (string, error) {
	out := filepath.Join(dir, "props.test")
	args := []string{"test", "-c", "-tags", "verif", "-o", out}
	if race {
		out = filepath.Join(dir, "props.race.test")
		args = []string{"test", "-c", "-race", "-tags", "verif", "-o", out}
	}
	args = append(args, "./props")
	cmd := exec.Command("go", args...)
	cmd.Dir = filepath.Join(root, "harness")
	cmd.Env = env()
	if race {
		// -race needs cgo at build time; shards still run with CGO_ENABLED=0 so that the source
		// importer does not try to run cgo for std packages.
		cmd.Env = append(cmd.Env, "CGO_ENABLED=1")
	}
	b, err := cmd.CombinedOutput()
	if err != nil {
		return "", fmt.Errorf("%v\n%s", err, b)
	}
	return out, nil
}

// buildBins builds the front-end binaries of /repo's working tree (through the harness module's
// replace directive, so /repo/go.sum is never touched).
func buildBins(dir string, race bool) error {
	os.MkdirAll(dir, 0o755)
	names := []string{"go-critic", "gocritic", "go-critic-analysis", "gocritic-analysis", "initorder"}
	var wg sync.WaitGroup
	errs := make([]error, len(names)*2)
	build := func(i int, name string, race bool) {
		defer wg.Done()
		out := filepath.Join(dir, name)
		args := []string{"build", "-o", out}
		e := env()
		if race {
			args = []string{"build", "-race", "-o", out + "-race"}
			e = append(e, "CGO_ENABLED=1")
		}
		if name == "initorder" {
			args = append(args, "verif/harness/cmd/initorder") // C17's fresh-process helper
		} else {
			args = append(args, "github.com/go-critic/go-critic/cmd/"+name)
		}
		cmd := exec.Command("go", args...)
		cmd.Dir = filepath.Join(root, "harness")
		cmd.Env = e
		if b, err := cmd.CombinedOutput(); err != nil {
			errs[i] = fmt.Errorf("%s: %v\n%s", name, err, b)
		}
	}
	for i, n := range names {
		wg.Add(1)
		go build(i, n, false)
		if race && i < 2 {
			wg.Add(1)
			go build(len(names)+i, n, true)
		}
	}
	wg.Wait()
	for _, e := range errs {
		if e != nil {
			return e
		}
	}
	return nil
}

type shardOutcome struct {
	k        int
	exit     int
	timedOut bool
	stderr   string
	res      *core.ShardResult
	current  []byte
}

func runShard(ctx context.Context, bin, id, tier string, cfg propCfg, tc tierCfg, seed int64, k int, rundir string, extraEnv []string, testRun string) shardOutcome {
	out := shardOutcome{k: k}
	c, cancel := context.WithTimeout(ctx, tc.Limit)
	defer cancel()
	args := []string{
		"-test.run", "^" + testRun + "$", "-test.timeout", "0", "-test.count", "1",
		"-rapid.nofailfile", "-rapid.shrinktime", shrinkTime(cfg),
		"-rapid.checks", strconv.Itoa(tc.Checks),
		"-rapid.seed", strconv.FormatInt(seed*1000+int64(k)+1, 10),
	}
	if cfg.Steps > 0 {
		args = append(args, "-rapid.steps", strconv.Itoa(cfg.Steps))
	}
	cmd := exec.CommandContext(c, bin, args...)
	cmd.Dir = filepath.Join(root, "harness", "props")
	work := filepath.Join(rundir, "work")
	cmd.Env = append(env(),
		"VERIF_PROP="+id, "VERIF_TIER="+tier, "VERIF_SHARD="+strconv.Itoa(k),
		"VERIF_SHARD_SEED="+strconv.FormatInt(seed*1000+int64(k)+1, 10),
		"VERIF_SEED="+strconv.FormatInt(seed, 10),
		"VERIF_OUT="+rundir, "VERIF_WORK="+work, "VERIF_ROOT="+root,
		"VERIF_BIN="+filepath.Join(rundir, "bin"),
		"GORACE=halt_on_error=1 exitcode=66",
	)
	cmd.Env = append(cmd.Env, extraEnv...)
	var stderr bytes.Buffer
	cmd.Stdout = &stderr
	cmd.Stderr = &stderr
	err := cmd.Run()
	if c.Err() == context.DeadlineExceeded {
		out.timedOut = true
	}
	if err != nil {
		if ee, ok := err.(*exec.ExitError); ok {
			out.exit = ee.ExitCode()
		} else {
			out.exit = -1
		}
	}
	s := stderr.String()
	if len(s) > 60000 {
		s = s[:20000] + "\n...\n" + s[len(s)-40000:]
	}
	out.stderr = s
	if b, err := os.ReadFile(filepath.Join(rundir, fmt.Sprintf("shard-%d.json", k))); err == nil {
		var r core.ShardResult
		if json.Unmarshal(b, &r) == nil {
			out.res = &r
		}
	}
	out.current, _ = os.ReadFile(filepath.Join(rundir, fmt.Sprintf("shard-%d.current", k)))
	return out
}

var (
	reFatal   = regexp.MustCompile(`(?m)^fatal error: (.*)$`)
	reRuntime = regexp.MustCompile(`(?m)^runtime: (goroutine stack exceeds.*)$`)
	reFrame   = regexp.MustCompile(`(?m)^\s*github\.com/go-critic/go-critic/([^\s(]+(?:\([^)]*\))?[^\s(]*)\(`)
	reRace    = regexp.MustCompile(`WARNING: DATA RACE`)
)

// deathSignature classifies an unrecoverable process death from its stderr.
func deathSignature(id, stderr string) (sig, msg string) {
	kind, what := "death", "process died"
	switch {
	case strings.Contains(stderr, "VERIF-WATCHDOG"):
		kind, what = "hang", "did not finish"
	case reRuntime.MatchString(stderr):
		kind, what = "fatal", "stack overflow"
	case reFatal.MatchString(stderr):
		kind, what = "fatal", core.NormMsg(reFatal.FindStringSubmatch(stderr)[1])
	}
	frame := "?"
	if m := reFrame.FindStringSubmatch(stderr); m != nil {
		frame = m[1]
	}
	return id + "|" + kind + "|" + frame + "|" + what, what
}

func writeReplay(id, sig, msg string, c json.RawMessage) string {
	h := sha256.Sum256(append([]byte(sig+"\x00"), c...))
	dir := filepath.Join(outRoot, "replays", id)
	os.MkdirAll(dir, 0o755)
	path := filepath.Join(dir, hex.EncodeToString(h[:8])+".json")
	b, _ := json.MarshalIndent(map[string]any{"property": id, "signature": sig, "message": msg, "case": c}, "", " ")
	os.WriteFile(path, b, 0o644)
	return path
}

func seedFromEnv() int64 {
	if v := os.Getenv("VERIF_SEED"); v != "" {
		if n, err := strconv.ParseInt(v, 10, 64); err == nil {
			if n < 0 {
				n = -n
			}
			return n % 1000000
		}
	}
	return 1
}

func check(id, tier string) int {
	cfg, ok := configs[id]
	if !ok {
		fatal2("no check for property %s", id)
	}
	if tier != "quick" && tier != "thorough" {
		fatal2("tier must be quick or thorough")
	}
	start := time.Now()
	seed := seedFromEnv()
	tc := cfg.Quick
	if tier == "thorough" {
		tc = cfg.Thorough
	}
	if os.Getenv("VERIF_FUZZ_ONLY") != "" {
		// development aid: only the native fuzz campaigns (with VERIF_FUZZ_IN_QUICK / VERIF_FUZZ_TIME)
		tc.Shards, cfg.Floor = 0, 0
	}
	rundir, err := os.MkdirTemp("", "verif-run-"+id+"-")
	if err != nil {
		fatal2("%v", err)
	}
	defer os.RemoveAll(rundir)
	os.MkdirAll(filepath.Join(rundir, "work"), 0o755)
	bin, err := buildTest(rundir, cfg.Race)
	if err != nil {
		fmt.Printf("INCONCLUSIVE: the harness does not build against /repo's working tree:\n%v\n", err)
		return 2
	}
	if cfg.NeedBins {
		if err := buildBins(filepath.Join(rundir, "bin"), cfg.NeedRaceBins); err != nil {
			fmt.Printf("INCONCLUSIVE: the go-critic binaries do not build from /repo's working tree:\n%v\n", err)
			return 2
		}
	}
	known := core.LoadKnown()
	isKnown := func(sig string) bool {
		for _, k := range known {
			if k.Status != "known" || k.Property != id {
				continue
			}
			if k.Signature == sig || (strings.HasSuffix(k.Signature, "*") && strings.HasPrefix(sig, strings.TrimSuffix(k.Signature, "*"))) {
				return true
			}
		}
		return false
	}

	type violation struct{ sig, msg, replay string }
	var violations []violation
	seenSig := map[string]bool{}
	addViolation := func(sig, msg string, c json.RawMessage) {
		if seenSig[sig] {
			return
		}
		seenSig[sig] = true
		violations = append(violations, violation{sig, msg, writeReplay(id, sig, msg, c)})
	}
	var inconclusive []string
	knownHits := map[string]int{}

	// ---- replay tier: committed regression inputs (witnesses of fixed defects, earlier replays)
	regress := filepath.Join(root, "regress", id)
	nReplayed := 0
	if ents, _ := filepath.Glob(filepath.Join(regress, "*.json")); len(ents) > 0 {
		o := runShard(context.Background(), bin, id, tier, cfg, tierCfg{Checks: 1, Limit: 10 * time.Minute}, seed, 900, rundir,
			[]string{"VERIF_REPLAY=" + regress}, "TestReplay")
		nReplayed = len(ents)
		if o.res != nil {
			for _, f := range o.res.Failures {
				if isKnown(f.Signature) {
					knownHits[f.Signature]++
					continue
				}
				addViolation(f.Signature, "replay tier: "+f.Message, f.Case)
			}
			for s, n := range o.res.KnownHits {
				knownHits[s] += n
			}
		}
		if o.exit != 0 && (o.res == nil || len(o.res.Failures) == 0) {
			inconclusive = append(inconclusive, "replay tier died: "+tail(o.stderr, 2000))
		}
	}

	// ---- generator shards
	var wg sync.WaitGroup
	chunks := 1
	if tc.Chunk > 0 && tc.Checks > tc.Chunk {
		chunks = (tc.Checks + tc.Chunk - 1) / tc.Chunk
	}
	outs := make([]shardOutcome, tc.Shards*chunks)
	for k := 0; k < tc.Shards; k++ {
		wg.Add(1)
		go func(k int) {
			defer wg.Done()
			left := tc.Checks
			for j := 0; j < chunks; j++ {
				ctc := tc
				if chunks > 1 {
					ctc.Checks = tc.Chunk
					if left < ctc.Checks {
						ctc.Checks = left
					}
					left -= ctc.Checks
				}
				// chunk j of slot k is shard k+j*Shards: its own seed, result file and scratch dir
				outs[k+j*tc.Shards] = runShard(context.Background(), bin, id, tier, cfg, ctc, seed, k+j*tc.Shards, rundir, nil, "TestProp")
			}
		}(k)
	}
	wg.Wait()

	merged := core.ShardResult{Property: id, Counters: map[string]int{}, KnownHits: knownHits}
	nt := map[uint64]struct{}{}
	exhaustive := true
	for _, o := range outs {
		if o.res != nil {
			merged.Evaluations += o.res.Evaluations
			merged.Rejected += o.res.Rejected
			for _, h := range o.res.Nontrivial {
				nt[h] = struct{}{}
			}
			for k, v := range o.res.Counters {
				merged.Counters[k] += v
			}
			for s, n := range o.res.KnownHits {
				merged.KnownHits[s] += n
			}
			if len(merged.Samples) < sampleCap() {
				for _, s := range o.res.Samples {
					if len(merged.Samples) < sampleCap() {
						merged.Samples = append(merged.Samples, s)
					}
				}
			}
			for _, m := range o.res.Inconclusive {
				inconclusive = append(inconclusive, fmt.Sprintf("shard %d: %s", o.k, m))
			}
			if !o.res.Exhaustive {
				exhaustive = false
			}
		} else {
			exhaustive = false
		}
		switch {
		case o.res != nil && len(o.res.Failures) > 0:
			for _, f := range o.res.Failures {
				if isKnown(f.Signature) {
					merged.KnownHits[f.Signature]++
					continue
				}
				addViolation(f.Signature, f.Message, f.Case)
			}
		case o.timedOut:
			inconclusive = append(inconclusive, fmt.Sprintf("shard %d hit the wall-clock limit %v", o.k, tc.Limit))
		case o.exit == 66 || reRace.MatchString(o.stderr):
			// data race reported by the race detector: the report is the evidence
			sig := raceSignature(id, o.stderr)
			if isKnown(sig) {
				merged.KnownHits[sig]++
			} else {
				c := json.RawMessage(o.current)
				if len(c) == 0 {
					c = json.RawMessage(`{}`)
				}
				addViolation(sig, "race detector report:\n"+tail(o.stderr, 6000), c)
			}
		case o.exit != 0:
			// unrecoverable death (fatal error, stack overflow, watchdog): confirm the current case
			// alone in a fresh process with a much larger time limit before it counts.
			if len(o.current) == 0 {
				inconclusive = append(inconclusive, fmt.Sprintf("shard %d died (exit %d) without a current case:\n%s", o.k, o.exit, tail(o.stderr, 3000)))
				break
			}
			tmp := filepath.Join(rundir, fmt.Sprintf("confirm-%d.json", o.k))
			b, _ := json.Marshal(map[string]any{"property": id, "signature": "confirm", "case": json.RawMessage(o.current)})
			os.WriteFile(tmp, b, 0o644)
			co := runShard(context.Background(), bin, id, tier, cfg, tierCfg{Checks: 1, Limit: 5 * time.Minute}, seed, 800+o.k, rundir,
				[]string{"VERIF_REPLAY=" + tmp, "VERIF_HANG_S=150"}, "TestReplay")
			if co.exit == 0 {
				inconclusive = append(inconclusive, fmt.Sprintf("shard %d died (exit %d) but its last case does not reproduce alone:\n%s", o.k, o.exit, tail(o.stderr, 3000)))
				break
			}
			if co.res != nil && len(co.res.Failures) > 0 {
				for _, f := range co.res.Failures {
					if isKnown(f.Signature) {
						merged.KnownHits[f.Signature]++
					} else {
						addViolation(f.Signature, f.Message, f.Case)
					}
				}
				break
			}
			sig, what := deathSignature(id, co.stderr)
			if isKnown(sig) {
				merged.KnownHits[sig]++
			} else {
				addViolation(sig, what+" (confirmed alone in a fresh process)\n"+tail(co.stderr, 6000), json.RawMessage(o.current))
			}
		case o.res == nil:
			inconclusive = append(inconclusive, fmt.Sprintf("shard %d wrote no result:\n%s", o.k, tail(o.stderr, 3000)))
		case !o.res.Completed:
			inconclusive = append(inconclusive, fmt.Sprintf("shard %d did not complete:\n%s", o.k, tail(o.stderr, 3000)))
		}
	}

	// ---- native fuzz campaigns (thorough only)
	fuzzExecs := map[string]any{}
	if tier == "thorough" || os.Getenv("VERIF_FUZZ_IN_QUICK") != "" {
		budget, err := time.ParseDuration(cfg.FuzzTime)
		if err != nil || budget <= 0 {
			budget = 2 * time.Minute
		}
		if s := os.Getenv("VERIF_FUZZ_TIME"); s != "" { // development aid
			if d, err := time.ParseDuration(s); err == nil {
				budget = d
			}
		}
		for _, target := range cfg.FuzzTargets {
			v, kh, inc, st := runFuzz(id, target, budget, cfg, bin, rundir, seed, isKnown)
			fuzzExecs[target] = map[string]any{
				"execs": st.Execs, "oracle_evaluations": st.res.Evaluations, "rejected_inputs": st.res.Rejected,
				"distinct_nontrivial": len(st.nt), "candidates": st.Candidates, "confirmed": st.Confirmed, "budget": budget.String(),
				"restarts": st.Restarts, "notes": st.Notes,
			}
			merged.Evaluations += st.res.Evaluations
			merged.Rejected += st.res.Rejected
			for h := range st.nt {
				nt[h] = struct{}{}
			}
			for k, n := range st.res.Counters {
				merged.Counters["fuzz:"+target+":"+k] += n
			}
			for s, n := range kh {
				merged.KnownHits[s] += n
			}
			for _, smp := range st.res.Samples {
				if len(merged.Samples) < sampleCap()+4 {
					merged.Samples = append(merged.Samples, map[string]any{"kind": "native-fuzz:" + target, "sample": smp})
				}
			}
			for _, f := range v {
				addViolation(f.Signature, f.Message, f.Case)
			}
			inconclusive = append(inconclusive, inc...)
		}
	}

	// ---- evidence
	distinct := len(nt)
	wall := time.Since(start).Seconds()
	cov := map[string]any{
		"evaluations":             merged.Evaluations,
		"distinct_nontrivial":     distinct,
		"rule":                    cfg.Rule,
		"samples":                 merged.Samples,
		"rejected_by_typechecker": merged.Rejected,
		"counters":                merged.Counters,
		"known_finding_hits":      merged.KnownHits,
		"replay_tier_cases":       nReplayed,
		"shards":                  tc.Shards,
		"checks_per_shard":        tc.Checks,
	}
	if len(fuzzExecs) > 0 {
		cov["native_fuzz"] = fuzzExecs
	}
	if exhaustive && merged.Evaluations > 0 {
		cov["exhaustive"] = true
	}
	if merged.Samples == nil {
		cov["samples"] = []any{}
	}
	level := cfg.Level
	if level == "" {
		level = "exploration"
	}
	ev := map[string]any{
		"property_id": id,
		"tier":        tier,
		"seed":        seed,
		"level":       level,
		"coverage":    cov,
		"assumptions": cfg.Assumptions,
		"wall_s":      wall,
		"violations":  len(violations),
	}
	if len(inconclusive) > 0 {
		ev["inconclusive"] = inconclusive
	}
	os.MkdirAll(filepath.Join(outRoot, "evidence"), 0o755)
	eb, _ := json.MarshalIndent(ev, "", " ")
	os.WriteFile(filepath.Join(outRoot, "evidence", id+".json"), eb, 0o644)

	// ---- report
	for _, k := range known {
		if k.Status == "known" && k.Property == id {
			n := 0
			for s, c := range merged.KnownHits {
				if s == k.Signature || (strings.HasSuffix(k.Signature, "*") && strings.HasPrefix(s, strings.TrimSuffix(k.Signature, "*"))) {
					n += c
				}
			}
			fmt.Printf("KNOWN-FINDING: property=%s %s [signature %s; excluded %d time(s) in this run]\n", id, k.WhatFails, k.Signature, n)
		}
	}
	fmt.Printf("%s %s: evaluations=%d distinct_nontrivial=%d rejected=%d wall=%.1fs seed=%d\n", id, tier, merged.Evaluations, distinct, merged.Rejected, wall, seed)
	if len(violations) > 0 {
		sort.Slice(violations, func(i, j int) bool { return violations[i].sig < violations[j].sig })
		for _, v := range violations {
			fmt.Printf("VIOLATION property=%s replay=%s\n", id, v.replay)
			fmt.Printf("  signature: %s\n  %s\n", v.sig, indent(head(v.msg, 3000)))
		}
		return 1
	}
	if len(inconclusive) > 0 {
		for _, m := range inconclusive {
			fmt.Printf("INCONCLUSIVE: %s\n", m)
		}
		return 2
	}
	if distinct < cfg.Floor {
		fmt.Printf("INCONCLUSIVE: only %d distinct non-trivial cases (floor %d): generator broken\n", distinct, cfg.Floor)
		return 2
	}
	fmt.Printf("OK property=%s held on everything explored\n", id)
	return 0
}

// shrinkTime: end-to-end cases cost seconds each, so their minimisation budget is smaller.
func shrinkTime(cfg propCfg) string {
	if cfg.NeedBins {
		return "20s"
	}
	return "45s"
}

func sampleCap() int {
	if os.Getenv("VERIF_COLLECT") != "" {
		return 400
	}
	return 10
}

func raceSignature(id, stderr string) string {
	// two top go-critic frames of the report
	ms := reFrame.FindAllStringSubmatch(stderr, 4)
	var fr []string
	seen := map[string]bool{}
	for _, m := range ms {
		if !seen[m[1]] {
			seen[m[1]] = true
			fr = append(fr, m[1])
		}
	}
	sort.Strings(fr)
	if len(fr) > 2 {
		fr = fr[:2]
	}
	return id + "|race|" + strings.Join(fr, "|")
}

func tail(s string, n int) string {
	if len(s) > n {
		return "…" + s[len(s)-n:]
	}
	return s
}

func head(s string, n int) string {
	if len(s) > n {
		return s[:n] + "…"
	}
	return s
}

func indent(s string) string { return strings.ReplaceAll(s, "\n", "\n  ") }

func replay(path string) int {
	abs, err := filepath.Abs(path)
	if err != nil {
		fatal2("%v", err)
	}
	first := abs
	if st, err := os.Stat(abs); err == nil && st.IsDir() {
		// a directory of replay files of one property
		if fs, _ := filepath.Glob(filepath.Join(abs, "*.json")); len(fs) > 0 {
			first = fs[0]
		}
	}
	b, err := os.ReadFile(first)
	if err != nil {
		fatal2("%v", err)
	}
	var rf struct {
		Property string `json:"property"`
	}
	if err := json.Unmarshal(b, &rf); err != nil {
		fatal2("%v", err)
	}
	cfg, ok := configs[rf.Property]
	if !ok {
		fatal2("unknown property %q in replay file", rf.Property)
	}
	rundir, err := os.MkdirTemp("", "verif-replay-")
	if err != nil {
		fatal2("%v", err)
	}
	defer os.RemoveAll(rundir)
	os.MkdirAll(filepath.Join(rundir, "work"), 0o755)
	bin, err := buildTest(rundir, cfg.Race)
	if err != nil {
		fatal2("build: %v", err)
	}
	if cfg.NeedBins {
		if err := buildBins(filepath.Join(rundir, "bin"), cfg.NeedRaceBins); err != nil {
			fmt.Printf("INCONCLUSIVE: the go-critic binaries do not build from /repo's working tree:\n%v\n", err)
			return 2
		}
	}
	o := runShard(context.Background(), bin, rf.Property, "quick", cfg, tierCfg{Checks: 1, Limit: 10 * time.Minute}, 1, 0, rundir,
		[]string{"VERIF_REPLAY=" + abs, "VERIF_HANG_S=150"}, "TestReplay")
	if o.res != nil && len(o.res.Failures) > 0 {
		for _, f := range o.res.Failures {
			fmt.Printf("VIOLATION property=%s replay=%s\n  signature: %s\n  %s\n", rf.Property, abs, f.Signature, indent(head(f.Message, 4000)))
		}
		return 1
	}
	if o.exit == 66 || reRace.MatchString(o.stderr) {
		fmt.Printf("VIOLATION property=%s replay=%s\n  signature: %s\n  race detector report:\n%s\n", rf.Property, abs, raceSignature(rf.Property, o.stderr), indent(tail(o.stderr, 6000)))
		return 1
	}
	if o.exit != 0 {
		sig, what := deathSignature(rf.Property, o.stderr)
		if strings.Contains(sig, "|death|") {
			fmt.Printf("INCONCLUSIVE: replay process failed:\n%s\n", tail(o.stderr, 4000))
			return 2
		}
		fmt.Printf("VIOLATION property=%s replay=%s\n  signature: %s\n  %s\n", rf.Property, abs, sig, what)
		return 1
	}
	fmt.Printf("OK replay of %s does not violate %s on this tree\n", abs, rf.Property)
	return 0
}
