package core

import (
	"go/token"
	"os"
	"path/filepath"
	"sort"
	"strings"
	"sync"
)

// RepoDir is the go-critic tree under verification.
func RepoDir() string {
	if r := os.Getenv("VERIF_REPO"); r != "" {
		return r
	}
	return "/repo"
}

// CorpusPkg is one maintainer-written example package (G1).
type CorpusPkg struct {
	Name string   // directory name == checker name
	Dir  string   // absolute dir
	Srcs []Source // files (base names)
}

var (
	corpusOnce sync.Once
	corpus     []CorpusPkg
)

// Corpus lists checkers/testdata/<checker>/*.go (every directory not starting with '_').
func Corpus() []CorpusPkg {
	corpusOnce.Do(func() {
		root := filepath.Join(RepoDir(), "checkers", "testdata")
		ents, err := os.ReadDir(root)
		if err != nil {
			panic(err)
		}
		for _, e := range ents {
			if !e.IsDir() || strings.HasPrefix(e.Name(), "_") {
				continue
			}
			dir := filepath.Join(root, e.Name())
			files, _ := filepath.Glob(filepath.Join(dir, "*.go"))
			sort.Strings(files)
			cp := CorpusPkg{Name: e.Name(), Dir: dir}
			for _, f := range files {
				b, err := os.ReadFile(f)
				if err != nil {
					continue
				}
				cp.Srcs = append(cp.Srcs, Source{Name: filepath.Base(f), Text: string(b)})
			}
			if len(cp.Srcs) > 0 {
				corpus = append(corpus, cp)
			}
		}
		// the orphaned "odd syntax" file
		san := filepath.Join(RepoDir(), "checkers", "internal", "linttest", "testdata", "sanity")
		if b, err := os.ReadFile(filepath.Join(san, "tests.go")); err == nil {
			corpus = append(corpus, CorpusPkg{Name: "_sanity", Dir: san, Srcs: []Source{{Name: "tests.go", Text: string(b)}}})
		}
	})
	return corpus
}

// LoadCorpusPkg loads a corpus package in place (files are already on disk).
func LoadCorpusPkg(fset *token.FileSet, cp CorpusPkg) *Program {
	return Load(fset, cp.Dir, "corpus/"+cp.Name, cp.Srcs, LoadOpts{NoWrite: true})
}
