package core

import (
	"fmt"
	"go/ast"
	"go/token"
	"regexp"
	"runtime"
	"strings"
	"sync"

	"github.com/go-critic/go-critic/checkers"
	"github.com/go-critic/go-critic/linter"
)

var (
	regOnce  sync.Once
	regInfos []*linter.CheckerInfo
	regErr   error
)

// Registry returns every registered checker (hand-written + embedded rules),
// initialising the embedded rules exactly once like the CLI's main does.
func Registry() []*linter.CheckerInfo {
	regOnce.Do(func() {
		regErr = checkers.InitEmbeddedRules()
		regInfos = linter.GetCheckersInfo()
	})
	if regErr != nil {
		panic(regErr)
	}
	return regInfos
}

// InfoByName looks a checker up.
func InfoByName(name string) *linter.CheckerInfo {
	for _, in := range Registry() {
		if in.Name == name {
			return in
		}
	}
	return nil
}

// HandWritten / Embedded split of the registry (the "ruleguard" checker, which needs
// user rule files, is excluded from both: with an empty rules parameter it is a no-op).
func HandWritten() []*linter.CheckerInfo {
	var out []*linter.CheckerInfo
	for _, in := range Registry() {
		if !in.EmbeddedRuleguard {
			out = append(out, in)
		}
	}
	return out
}

func Embedded() []*linter.CheckerInfo {
	var out []*linter.CheckerInfo
	for _, in := range Registry() {
		if in.EmbeddedRuleguard {
			out = append(out, in)
		}
	}
	return out
}

// Set is a group of checkers sharing one context, like the CLI's program.checkers.
type Set struct {
	Ctx      *linter.Context
	Checkers []*linter.Checker
}

// NewSet builds the checkers for infos over a new context bound to fset.
func NewSet(fset *token.FileSet, infos []*linter.CheckerInfo) (*Set, error) {
	ctx := linter.NewContext(fset, Sizes)
	s := &Set{Ctx: ctx}
	for _, in := range infos {
		c, err := linter.NewChecker(ctx, in)
		if err != nil {
			return nil, fmt.Errorf("init %s: %w", in.Name, err)
		}
		s.Checkers = append(s.Checkers, c)
	}
	return s, nil
}

// Bind performs what the CLI does when it moves to a package / file.
func (s *Set) BindPackage(p *Program) { s.Ctx.SetPackageInfo(p.Info, p.Pkg) }
func (s *Set) BindFile(p *Program, i int) {
	s.Ctx.SetFileInfo(p.Names[i], p.Files[i])
}

// Crash describes a recovered panic inside a checker.
type Crash struct {
	Checker string `json:"checker"`
	Value   string `json:"value"`
	Frame   string `json:"frame"` // top-most go-critic frame (function name)
	Stack   string `json:"stack,omitempty"`
}

var (
	reDigits = regexp.MustCompile(`[0-9]+`)
	reQuoted = regexp.MustCompile(`"[^"]*"`)
	reHex    = regexp.MustCompile(`0x[0-9a-fA-F]+`)
)

// NormMsg normalises digits / quoted text so that a signature names a failure class.
func NormMsg(s string) string {
	s = reHex.ReplaceAllString(s, "0xN")
	s = reQuoted.ReplaceAllString(s, `"…"`)
	s = reDigits.ReplaceAllString(s, "N")
	if len(s) > 120 {
		s = s[:120]
	}
	return s
}

// Signature of a crash: kind x top go-critic frame x message class.
func (c *Crash) Signature(prop string) string {
	return prop + "|panic|" + c.Frame + "|" + NormMsg(c.Value)
}

const repoMod = "github.com/go-critic/go-critic/"

func topRepoFrame() (string, string) {
	pcs := make([]uintptr, 64)
	n := runtime.Callers(3, pcs)
	frames := runtime.CallersFrames(pcs[:n])
	var sb strings.Builder
	top := ""
	for {
		fr, more := frames.Next()
		fmt.Fprintf(&sb, "%s\n\t%s:%d\n", fr.Function, fr.File, fr.Line)
		if top == "" && strings.HasPrefix(fr.Function, repoMod) &&
			!strings.Contains(fr.Function, "linter.(*Checker).Check") {
			top = strings.TrimPrefix(fr.Function, repoMod)
		}
		if !more {
			break
		}
	}
	if top == "" {
		top = "?"
	}
	return top, sb.String()
}

// RunOne executes one checker over one file under recover. The real CLI re-panics, so a
// recovered panic here is a process crash for users.
func RunOne(c *linter.Checker, f *ast.File) (ws []linter.Warning, crash *Crash) {
	defer func() {
		if r := recover(); r != nil {
			top, stack := topRepoFrame()
			crash = &Crash{Checker: c.Info.Name, Value: fmt.Sprint(r), Frame: top, Stack: stack}
			ws = nil
		}
	}()
	got := c.Check(f)
	// The returned slice aliases the checker's buffer: copy it.
	ws = append([]linter.Warning(nil), got...)
	return ws, nil
}

// Diag is a position-resolved, comparable rendering of a warning.
type Diag struct {
	Checker string `json:"checker"`
	File    string `json:"file"`
	Line    int    `json:"line"`
	Col     int    `json:"col"`
	Offset  int    `json:"offset"`
	Text    string `json:"text"`
	HasFix  bool   `json:"has_fix,omitempty"`
	FixFrom int    `json:"fix_from,omitempty"`
	FixTo   int    `json:"fix_to,omitempty"`
	Fix     string `json:"fix,omitempty"`
}

// ToDiag resolves w against fset.
func ToDiag(fset *token.FileSet, checker string, w linter.Warning) Diag {
	d := Diag{Checker: checker, Text: w.Text}
	if w.Pos.IsValid() {
		pos := fset.PositionFor(w.Pos, false) // unadjusted: //line directives must not matter
		d.File, d.Line, d.Col, d.Offset = pos.Filename, pos.Line, pos.Column, pos.Offset
	}
	if w.HasQuickFix() {
		d.HasFix = true
		d.Fix = string(w.Suggestion.Replacement)
		if w.Suggestion.From.IsValid() {
			d.FixFrom = fset.PositionFor(w.Suggestion.From, false).Offset
		} else {
			d.FixFrom = -1
		}
		if w.Suggestion.To.IsValid() {
			d.FixTo = fset.PositionFor(w.Suggestion.To, false).Offset
		} else {
			d.FixTo = -1
		}
	}
	return d
}

func (d Diag) String() string {
	s := fmt.Sprintf("%s:%d:%d: %s: %s", shortName(d.File), d.Line, d.Col, d.Checker, d.Text)
	if d.HasFix {
		s += fmt.Sprintf(" [fix %d-%d %q]", d.FixFrom, d.FixTo, d.Fix)
	}
	return s
}

func shortName(s string) string {
	if i := strings.LastIndexByte(s, '/'); i >= 0 {
		return s[i+1:]
	}
	return s
}

// DiagsOf converts a warning list.
func DiagsOf(fset *token.FileSet, checker string, ws []linter.Warning) []Diag {
	out := make([]Diag, len(ws))
	for i, w := range ws {
		out[i] = ToDiag(fset, checker, w)
	}
	return out
}

// RunAll runs every checker of the set over file i of p (binding package and file first),
// returning per-checker diagnostics and the first crash (if any).
func (s *Set) RunAll(p *Program, i int) (map[string][]Diag, []*Crash) {
	s.BindPackage(p)
	s.BindFile(p, i)
	out := make(map[string][]Diag, len(s.Checkers))
	var crashes []*Crash
	for _, c := range s.Checkers {
		ws, cr := RunOne(c, p.Files[i])
		if cr != nil {
			crashes = append(crashes, cr)
			continue
		}
		out[c.Info.Name] = DiagsOf(p.Fset, c.Info.Name, ws)
	}
	return out, crashes
}
