package core

import (
	"fmt"
	"go/ast"
	"go/token"
	"go/types"
	"hash/fnv"
	"reflect"
	"sort"
	"strings"

	"github.com/go-critic/go-critic/linter"
)

// Fingerprint is a structural dump of a syntax tree: one entry per visited value, in a
// deterministic traversal order (map-valued fields in sorted key order). Two dumps of an
// untouched tree are equal; any change of a node field, token, position, literal, comment,
// object link or node identity changes the dump.
type Fingerprint struct {
	Toks []uint64
}

type fpWalker struct {
	toks  []uint64
	ids   map[uintptr]int // pointer identity -> first-seen index
	paths []string        // only when tracking paths
	track bool
	path  []string
}

func (w *fpWalker) emit(v uint64) {
	w.toks = append(w.toks, v)
	if w.track {
		w.paths = append(w.paths, strings.Join(w.path, ""))
	}
}

func hashStr(s string) uint64 {
	h := fnv.New64a()
	h.Write([]byte(s))
	return h.Sum64()
}

func (w *fpWalker) push(s string) {
	if w.track {
		w.path = append(w.path, s)
	}
}
func (w *fpWalker) pop() {
	if w.track {
		w.path = w.path[:len(w.path)-1]
	}
}

var (
	posType   = reflect.TypeOf(token.Pos(0))
	tokType   = reflect.TypeOf(token.Token(0))
	objType   = reflect.TypeOf((*ast.Object)(nil))
	scopeType = reflect.TypeOf((*ast.Scope)(nil))
)

func (w *fpWalker) walk(v reflect.Value) {
	switch v.Kind() {
	case reflect.Interface:
		if v.IsNil() {
			w.emit(1)
			return
		}
		w.walk(v.Elem())
	case reflect.Ptr:
		if v.IsNil() {
			w.emit(2)
			return
		}
		p := v.Pointer()
		if id, seen := w.ids[p]; seen {
			w.emit(0x1000000 + uint64(id))
			return
		}
		w.ids[p] = len(w.ids)
		w.emit(0x2000000 + uint64(len(w.ids)))
		switch v.Type() {
		case objType:
			o := v.Interface().(*ast.Object)
			w.emit(uint64(o.Kind))
			w.emit(hashStr(o.Name))
			// Decl / Data / Type point back into the tree: identity only.
			w.push(".Decl")
			w.identity(reflect.ValueOf(o.Decl))
			w.pop()
			return
		case scopeType:
			s := v.Interface().(*ast.Scope)
			names := make([]string, 0, len(s.Objects))
			for n := range s.Objects {
				names = append(names, n)
			}
			sort.Strings(names)
			w.emit(uint64(len(names)))
			for _, n := range names {
				w.emit(hashStr(n))
				w.push(".Objects[" + n + "]")
				w.walk(reflect.ValueOf(s.Objects[n]))
				w.pop()
			}
			w.push(".Outer")
			w.walk(reflect.ValueOf(s.Outer))
			w.pop()
			return
		}
		w.emit(hashStr(v.Type().Elem().Name()))
		w.walk(v.Elem())
	case reflect.Struct:
		t := v.Type()
		for i := 0; i < v.NumField(); i++ {
			w.push("." + t.Field(i).Name)
			w.walk(v.Field(i))
			w.pop()
		}
	case reflect.Slice:
		if v.IsNil() {
			w.emit(3)
			return
		}
		w.emit(0x3000000 + uint64(v.Len()))
		for i := 0; i < v.Len(); i++ {
			w.push(fmt.Sprintf("[%d]", i))
			w.walk(v.Index(i))
			w.pop()
		}
	case reflect.Map:
		// only map[string]... occurs in go/ast (Scope.Objects handled above, Package.* not reached)
		keys := v.MapKeys()
		sort.Slice(keys, func(i, j int) bool { return fmt.Sprint(keys[i].Interface()) < fmt.Sprint(keys[j].Interface()) })
		w.emit(0x4000000 + uint64(len(keys)))
		for _, k := range keys {
			w.emit(hashStr(fmt.Sprint(k.Interface())))
			w.walk(v.MapIndex(k))
		}
	case reflect.String:
		w.emit(hashStr(v.String()))
	case reflect.Bool:
		if v.Bool() {
			w.emit(5)
		} else {
			w.emit(4)
		}
	case reflect.Int, reflect.Int8, reflect.Int16, reflect.Int32, reflect.Int64:
		w.emit(0x5000000 + uint64(v.Int()))
	case reflect.Uint, reflect.Uint8, reflect.Uint16, reflect.Uint32, reflect.Uint64:
		w.emit(0x6000000 + v.Uint())
	default:
		w.emit(hashStr("?" + v.Kind().String()))
	}
}

// identity emits only the identity of a pointer-like value (no recursion).
func (w *fpWalker) identity(v reflect.Value) {
	if !v.IsValid() {
		w.emit(6)
		return
	}
	if v.Kind() == reflect.Interface {
		if v.IsNil() {
			w.emit(1)
			return
		}
		v = v.Elem()
	}
	if v.Kind() == reflect.Ptr {
		if v.IsNil() {
			w.emit(2)
			return
		}
		if id, seen := w.ids[v.Pointer()]; seen {
			w.emit(0x1000000 + uint64(id))
		} else {
			// not reached yet in traversal order: number it now so that later visits agree
			w.ids[v.Pointer()] = len(w.ids)
			w.emit(0x7000000 + uint64(len(w.ids)))
		}
		return
	}
	w.emit(hashStr(fmt.Sprint(v.Kind())))
}

// FingerprintFile dumps the tree of f.
func FingerprintFile(f *ast.File) Fingerprint {
	w := &fpWalker{ids: map[uintptr]int{}}
	w.walk(reflect.ValueOf(f))
	return Fingerprint{Toks: w.toks}
}

// Equal reports whether two dumps are identical; otherwise the index of the first difference.
func (a Fingerprint) Equal(b Fingerprint) (bool, int) {
	n := len(a.Toks)
	if len(b.Toks) < n {
		n = len(b.Toks)
	}
	for i := 0; i < n; i++ {
		if a.Toks[i] != b.Toks[i] {
			return false, i
		}
	}
	if len(a.Toks) != len(b.Toks) {
		return false, n
	}
	return true, -1
}

// PathAt re-walks f with path tracking and returns the field path of dump entry idx
// (e.g. "File.Decls[2].Body.List[0].Cond.Op").
func PathAt(f *ast.File, idx int) string {
	w := &fpWalker{ids: map[uintptr]int{}, track: true, path: []string{"File"}}
	w.walk(reflect.ValueOf(f))
	if idx >= 0 && idx < len(w.paths) {
		return w.paths[idx]
	}
	if len(w.paths) > 0 {
		return w.paths[len(w.paths)-1] + "(+)"
	}
	return "?"
}

// PathClass removes indices from a path: Decls[2].Body.List[0].X.Op -> Decls.Body.List.X.Op,
// keeping only the last two components (node field that changed).
func PathClass(p string) string {
	var sb strings.Builder
	depth := 0
	for _, r := range p {
		switch {
		case r == '[':
			depth++
		case r == ']':
			depth--
		case depth == 0:
			sb.WriteRune(r)
		}
	}
	parts := strings.Split(sb.String(), ".")
	if len(parts) > 2 {
		parts = parts[len(parts)-2:]
	}
	return strings.Join(parts, ".")
}

// InfoFingerprint is an order-independent digest of a types.Info (sizes of every map and a
// commutative hash over the entries keyed by node identity/position).
func InfoFingerprint(info *types.Info) [10]uint64 {
	var out [10]uint64
	if info == nil {
		return out
	}
	ptr := func(x any) uint64 {
		v := reflect.ValueOf(x)
		if !v.IsValid() {
			return 0
		}
		switch v.Kind() {
		case reflect.Ptr, reflect.Map, reflect.Slice, reflect.Func, reflect.Chan, reflect.UnsafePointer:
			return uint64(v.Pointer())
		}
		return hashStr(fmt.Sprint(x))
	}
	mix := func(a, b uint64) uint64 { return (a*0x9E3779B97F4A7C15 ^ b) * 0xC2B2AE3D27D4EB4F }
	out[0] = uint64(len(info.Types))
	for e, tv := range info.Types {
		h := mix(ptr(e), ptr(tv.Type))
		if tv.Value != nil {
			h = mix(h, hashStr(tv.Value.ExactString()))
		}
		out[1] += h
	}
	out[2] = uint64(len(info.Defs))
	for id, o := range info.Defs {
		out[3] += mix(ptr(id), ptr(o))
	}
	out[4] = uint64(len(info.Uses))
	for id, o := range info.Uses {
		out[5] += mix(ptr(id), ptr(o))
	}
	out[6] = uint64(len(info.Selections))
	for s, sel := range info.Selections {
		out[7] += mix(ptr(s), ptr(sel))
	}
	out[8] = uint64(len(info.Implicits))*1000003 + uint64(len(info.Scopes))*10007 + uint64(len(info.Instances))*101 + uint64(len(info.FileVersions))
	for n, o := range info.Implicits {
		out[9] += mix(ptr(n), ptr(o))
	}
	return out
}

// ContextFingerprint renders the shared linter.Context fields.
func ContextFingerprint(c *linter.Context) string {
	return fmt.Sprintf("info=%p sizes=%v gover=%v fset=%p pkg=%p file=%q req=%v objs=%d/%#x renames=%v",
		c.TypesInfo, c.SizesInfo, c.GoVersion, c.FileSet, c.Pkg, c.Filename, c.Require, len(c.PkgObjects),
		mapPtr(c.PkgObjects), c.PkgRenames)
}

func mapPtr(m any) uintptr {
	v := reflect.ValueOf(m)
	if v.Kind() == reflect.Map && !v.IsNil() {
		return v.Pointer()
	}
	return 0
}

// RegistryFingerprint renders the registered checker metadata and parameter values.
func RegistryFingerprint() string {
	var sb strings.Builder
	for _, in := range linter.GetCheckersInfo() {
		fmt.Fprintf(&sb, "%s|%v|%q|%q|%q|%q|%q|%v|%p;", in.Name, in.Tags, in.Summary, in.Details, in.Before, in.After, in.Note, in.EmbeddedRuleguard, in.Collection)
		names := make([]string, 0, len(in.Params))
		for n := range in.Params {
			names = append(names, n)
		}
		sort.Strings(names)
		for _, n := range names {
			fmt.Fprintf(&sb, "%s=%v(%q),", n, in.Params[n].Value, in.Params[n].Usage)
		}
		sb.WriteString("\n")
	}
	return sb.String()
}
