// Package core holds the shared machinery of the verification harness:
// the loader (a model of how go-critic's front-ends feed checkers), checker
// sets, crash capture, structural fingerprints, statistics and replay I/O.
package core

import (
	"fmt"
	"go/ast"
	"go/importer"
	"go/parser"
	"go/token"
	"go/types"
	"os"
	"path/filepath"
	"runtime"
	"sort"
	"strings"
	"sync"
)

// Source is one file of a generated package.
type Source struct {
	Name string `json:"name"` // base name, e.g. "a.go"
	Text string `json:"text"`
}

// Program is a loaded (parsed + type-checked) package whose sources exist on disk
// under exactly the names recorded in the file set.
type Program struct {
	Dir       string
	PkgPath   string
	Fset      *token.FileSet
	Files     []*ast.File
	Names     []string // absolute file names, parallel to Files
	Srcs      [][]byte // parallel to Files
	Pkg       *types.Package
	Info      *types.Info
	ParseErrs []error
	TypeErrs  []error
}

// OK reports whether the program is in the domain of the "well-typed" properties.
func (p *Program) OK() bool { return len(p.ParseErrs) == 0 && len(p.TypeErrs) == 0 && len(p.Files) > 0 }

// Sizes is what the front-ends use.
var Sizes = types.SizesFor("gc", runtime.GOARCH)

var (
	impMu     sync.Mutex
	impFset   = token.NewFileSet()
	stdImp    types.Importer
	fakePkgs  = map[string]string{} // import path -> source text
	fakeCache = map[string]*types.Package{}
)

// RegisterFakePackage makes an in-memory package importable by generated programs.
func RegisterFakePackage(path, src string) {
	impMu.Lock()
	defer impMu.Unlock()
	fakePkgs[path] = src
	delete(fakeCache, path)
}

type harnessImporter struct{}

func (harnessImporter) Import(path string) (*types.Package, error) {
	impMu.Lock()
	defer impMu.Unlock()
	if stdImp == nil {
		stdImp = importer.ForCompiler(impFset, "source", nil)
	}
	if pkg, ok := fakeCache[path]; ok {
		return pkg, nil
	}
	if src, ok := fakePkgs[path]; ok {
		f, err := parser.ParseFile(impFset, "/fake/"+path+"/x.go", src, parser.ParseComments)
		if err != nil {
			return nil, fmt.Errorf("fake package %s: %v", path, err)
		}
		conf := types.Config{Importer: unlockedImporter{}, Sizes: Sizes}
		pkg, err := conf.Check(path, impFset, []*ast.File{f}, nil)
		if err != nil {
			return nil, fmt.Errorf("fake package %s: %v", path, err)
		}
		fakeCache[path] = pkg
		return pkg, nil
	}
	return stdImp.Import(path)
}

// unlockedImporter is used while impMu is already held (imports of fake packages).
type unlockedImporter struct{}

func (unlockedImporter) Import(path string) (*types.Package, error) {
	if pkg, ok := fakeCache[path]; ok {
		return pkg, nil
	}
	return stdImp.Import(path)
}

// Importer is the process-wide importer (std via source importer, plus fakes).
var Importer types.Importer = harnessImporter{}

// LoadOpts tunes Load.
type LoadOpts struct {
	Tolerant bool // keep going on errors (C19 emulation)
	NoWrite  bool // files already exist on disk with these bytes
	// AllowUnusedImports: an edit that removes the last use of a package orphans its import
	// whatever the quality of the suggestion (C09 calibration).
	AllowUnusedImports bool
}

func newInfo() *types.Info {
	return &types.Info{
		Types:        map[ast.Expr]types.TypeAndValue{},
		Defs:         map[*ast.Ident]types.Object{},
		Uses:         map[*ast.Ident]types.Object{},
		Implicits:    map[ast.Node]types.Object{},
		Selections:   map[*ast.SelectorExpr]*types.Selection{},
		Scopes:       map[ast.Node]*types.Scope{},
		Instances:    map[*ast.Ident]types.Instance{},
		FileVersions: map[*ast.File]string{},
	}
}

// Load writes the sources into dir (so that the rule engine, which re-reads analysed
// files by name, sees the parsed bytes), parses them with comments and object
// resolution, and type-checks them like go/packages does.
func Load(fset *token.FileSet, dir, pkgPath string, srcs []Source, opts LoadOpts) *Program {
	p := &Program{Dir: dir, PkgPath: pkgPath, Fset: fset}
	if !opts.NoWrite {
		if err := os.MkdirAll(dir, 0o755); err != nil {
			p.ParseErrs = append(p.ParseErrs, err)
			return p
		}
	}
	for _, s := range srcs {
		name := filepath.Join(dir, s.Name)
		if !opts.NoWrite {
			if err := os.WriteFile(name, []byte(s.Text), 0o644); err != nil {
				p.ParseErrs = append(p.ParseErrs, err)
				return p
			}
		}
		f, err := parser.ParseFile(fset, name, []byte(s.Text), parser.ParseComments|parser.AllErrors)
		if err != nil {
			p.ParseErrs = append(p.ParseErrs, err)
			if !opts.Tolerant || f == nil {
				continue
			}
		}
		p.Files = append(p.Files, f)
		p.Names = append(p.Names, name)
		p.Srcs = append(p.Srcs, []byte(s.Text))
	}
	if len(p.ParseErrs) > 0 && !opts.Tolerant {
		return p
	}
	p.Info = newInfo()
	conf := types.Config{
		Importer:                 Importer,
		Sizes:                    Sizes,
		Error:                    func(err error) { p.TypeErrs = append(p.TypeErrs, err) },
		DisableUnusedImportCheck: opts.AllowUnusedImports,
	}
	func() {
		// go/types itself can panic on odd (generated) input — an internal consistency check of the
		// toolchain, not of the code under test: such a program is outside the domain (rejected)
		defer func() {
			if r := recover(); r != nil {
				p.TypeErrs = append(p.TypeErrs, fmt.Errorf("go/types panicked (toolchain): %v", r))
			}
		}()
		pkg, _ := conf.Check(pkgPath, fset, p.Files, p.Info)
		p.Pkg = pkg
	}()
	if p.Pkg == nil {
		p.Pkg = types.NewPackage(pkgPath, "p")
	}
	return p
}

// FileIndex returns the index of the file containing pos, or -1.
func (p *Program) FileIndex(pos token.Pos) int {
	if !pos.IsValid() {
		return -1
	}
	tf := p.Fset.File(pos)
	if tf == nil {
		return -1
	}
	for i, n := range p.Names {
		if n == tf.Name() {
			return i
		}
	}
	return -1
}

// ErrSummary is used in rejection samples.
func (p *Program) ErrSummary() string {
	var parts []string
	for _, e := range p.ParseErrs {
		parts = append(parts, "parse: "+e.Error())
	}
	for _, e := range p.TypeErrs {
		parts = append(parts, "type: "+e.Error())
	}
	sort.Strings(parts)
	if len(parts) > 3 {
		parts = parts[:3]
	}
	return strings.Join(parts, "; ")
}
