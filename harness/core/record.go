package core

import (
	"encoding/json"
	"fmt"
	"hash/fnv"
	"os"
	"path/filepath"
	"sort"
	"strconv"
	"strings"
	"sync"
	"time"
)

// Root is /verif unless overridden.
func Root() string {
	if r := os.Getenv("VERIF_ROOT"); r != "" {
		return r
	}
	return "/verif"
}

// KnownFinding is one entry of /verif/known_findings.json.
type KnownFinding struct {
	Status    string `json:"status"` // "known" | "fixed"
	Property  string `json:"property"`
	Signature string `json:"signature"`
	WhatFails string `json:"what_fails"`
	Witness   string `json:"witness,omitempty"`
	Commit    string `json:"commit,omitempty"`
}

// LoadKnown reads the committed known-findings file; it is never written at run time.
func LoadKnown() []KnownFinding {
	b, err := os.ReadFile(filepath.Join(Root(), "known_findings.json"))
	if err != nil {
		return nil
	}
	var f struct {
		Findings []KnownFinding `json:"findings"`
	}
	if err := json.Unmarshal(b, &f); err != nil {
		panic("known_findings.json: " + err.Error())
	}
	return f.Findings
}

// Failure is a violation candidate produced by an oracle.
type Failure struct {
	Signature string          `json:"signature"`
	Message   string          `json:"message"`
	Case      json.RawMessage `json:"case"`
}

// ShardResult is what one shard process writes for the driver.
type ShardResult struct {
	Property     string         `json:"property"`
	Shard        int            `json:"shard"`
	Seed         uint64         `json:"seed"`
	Evaluations  int            `json:"evaluations"`
	Nontrivial   []uint64       `json:"nontrivial"`
	Rejected     int            `json:"rejected"`
	Samples      []any          `json:"samples"`
	Counters     map[string]int `json:"counters"`
	KnownHits    map[string]int `json:"known_hits"`
	Failures     []Failure      `json:"failures"`
	Inconclusive []string       `json:"inconclusive"`
	Completed    bool           `json:"completed"`
	Exhaustive   bool           `json:"exhaustive,omitempty"`
}

// Recorder accumulates coverage facts for one property in one process.
type Recorder struct {
	mu       sync.Mutex
	res      ShardResult
	nt       map[uint64]struct{}
	known    map[string]bool
	sampleBy map[string]int
	out      string
	lastFail *Failure
	allFails []Failure
	keepAll  bool
	// native-fuzz mode: every worker process owns one recorder; candidates are written at once
	// (the fuzz engine, not the recorder, decides when the process ends)
	fuzzDir   string
	lastFlush time.Time
}

// TB is the subset of testing.TB / *rapid.T the recorder needs.
type TB interface {
	Fatalf(format string, args ...any)
	Logf(format string, args ...any)
}

// Env helpers.
func EnvInt(name string, def int) int {
	if v := os.Getenv(name); v != "" {
		if n, err := strconv.Atoi(v); err == nil {
			return n
		}
	}
	return def
}

func Tier() string {
	if os.Getenv("VERIF_TIER") == "thorough" {
		return "thorough"
	}
	return "quick"
}

// NewRecorder creates the recorder for property id; results go to $VERIF_OUT/shard-<k>.json.
func NewRecorder(id string) *Recorder {
	r := &Recorder{
		nt:       map[uint64]struct{}{},
		known:    map[string]bool{},
		sampleBy: map[string]int{},
	}
	r.res.Property = id
	r.res.Shard = EnvInt("VERIF_SHARD", 0)
	r.res.Seed = uint64(EnvInt("VERIF_SHARD_SEED", 1))
	r.res.Counters = map[string]int{}
	r.res.KnownHits = map[string]int{}
	for _, k := range LoadKnown() {
		if k.Status == "known" && k.Property == id {
			r.known[k.Signature] = true
		}
	}
	r.keepAll = os.Getenv("VERIF_REPLAY") != ""
	if out := os.Getenv("VERIF_OUT"); out != "" {
		r.out = filepath.Join(out, fmt.Sprintf("shard-%d.json", r.res.Shard))
	}
	if fd := os.Getenv("VERIF_FUZZ_DIR"); fd != "" {
		r.fuzzDir = fd
		os.MkdirAll(filepath.Join(fd, "candidates"), 0o755)
		r.out = filepath.Join(fd, fmt.Sprintf("stats-%d.json", os.Getpid()))
	}
	return r
}

// FuzzMode reports whether this process is a native-fuzz worker (or coordinator).
func FuzzMode() bool { return os.Getenv("VERIF_FUZZ_DIR") != "" }

// Tick flushes the counters of a fuzz worker every few seconds (workers are killed, not ended).
func (r *Recorder) Tick() {
	if r.fuzzDir == "" {
		return
	}
	r.mu.Lock()
	due := time.Since(r.lastFlush) > 3*time.Second
	if due {
		r.lastFlush = time.Now()
	}
	r.mu.Unlock()
	if due {
		r.Flush(true)
	}
}

func Hash(parts ...string) uint64 {
	h := fnv.New64a()
	for _, p := range parts {
		h.Write([]byte(p))
		h.Write([]byte{0})
	}
	return h.Sum64()
}

func (r *Recorder) Eval() { r.mu.Lock(); r.res.Evaluations++; r.mu.Unlock() }
func (r *Recorder) Reject() {
	r.mu.Lock()
	r.res.Rejected++
	r.mu.Unlock()
}

// Nontrivial records a distinct non-trivial case identified by its key parts.
func (r *Recorder) Nontrivial(parts ...string) {
	h := Hash(parts...)
	r.mu.Lock()
	r.nt[h] = struct{}{}
	r.mu.Unlock()
}

func (r *Recorder) Count(label string) { r.CountN(label, 1) }
func (r *Recorder) CountN(label string, n int) {
	r.mu.Lock()
	r.res.Counters[label] += n
	r.mu.Unlock()
}

// Sample keeps up to max samples per kind.
func (r *Recorder) Sample(kind string, max int, v any) {
	r.mu.Lock()
	defer r.mu.Unlock()
	if r.sampleBy[kind] >= max {
		return
	}
	r.sampleBy[kind]++
	r.res.Samples = append(r.res.Samples, map[string]any{"kind": kind, "case": v})
}

// IsKnown reports whether sig is a listed known finding of this property. Signatures in the
// file may end in '*' to denote a prefix (used only where the class is inherently open).
func (r *Recorder) IsKnown(sig string) bool {
	if r.known[sig] {
		return true
	}
	for k := range r.known {
		if strings.HasSuffix(k, "*") && strings.HasPrefix(sig, strings.TrimSuffix(k, "*")) {
			return true
		}
	}
	return false
}

// Violation handles an oracle failure: a listed known finding is counted and excluded (returns
// false, the search goes on); anything else is recorded and fails the test case (rapid then
// shrinks; the last failure recorded is the minimal one).
func (r *Recorder) Violation(t TB, sig, msg string, c any) bool {
	if r.IsKnown(sig) {
		r.mu.Lock()
		r.res.KnownHits[sig]++
		r.mu.Unlock()
		return false
	}
	if os.Getenv("VERIF_COLLECT") != "" {
		// triage mode (never used by registered commands): enumerate signatures without stopping
		r.mu.Lock()
		r.res.Counters["violation:"+sig]++
		first := r.res.Counters["violation:"+sig] == 1
		r.mu.Unlock()
		if first {
			if len(msg) > 700 {
				msg = msg[:700]
			}
			r.mu.Lock()
			cj, _ := json.Marshal(c)
			if len(cj) > 3000 {
				cj = cj[:3000]
			}
			r.res.Samples = append(r.res.Samples, map[string]any{"kind": "violation", "signature": sig, "message": msg, "case_json": string(cj)})
			r.mu.Unlock()
		}
		return false
	}
	raw, _ := json.Marshal(c)
	f := Failure{Signature: sig, Message: msg, Case: raw}
	if r.fuzzDir != "" {
		// candidate for the driver, which confirms it by a plain replay in a fresh process
		b, _ := json.Marshal(map[string]any{"property": r.res.Property, "signature": sig, "message": msg, "case": json.RawMessage(raw)})
		name := fmt.Sprintf("%016x.json", Hash(sig, string(raw)))
		os.WriteFile(filepath.Join(r.fuzzDir, "candidates", name), b, 0o644)
	}
	r.mu.Lock()
	r.lastFail = &f
	if r.keepAll {
		r.allFails = append(r.allFails, f)
	}
	r.mu.Unlock()
	r.Flush(false)
	t.Fatalf("VIOLATION-CANDIDATE %s: %s", sig, msg)
	return true
}

// Candidate (native-fuzz workers only) leaves a case for the driver to confirm by a plain replay in
// a fresh process, without failing the current input: used where the deciding observation (a real
// binary run) is too slow for a fuzz worker. One file per signature, the smallest case wins.
func (r *Recorder) Candidate(sig, msg string, c any) {
	if r.fuzzDir == "" {
		return
	}
	raw, _ := json.Marshal(c)
	b, _ := json.Marshal(map[string]any{"property": r.res.Property, "signature": sig, "message": msg, "case": json.RawMessage(raw)})
	path := filepath.Join(r.fuzzDir, "candidates", fmt.Sprintf("%016x.json", Hash(sig)))
	if st, err := os.Stat(path); err == nil && st.Size() <= int64(len(b)) {
		return
	}
	tmp := fmt.Sprintf("%s.%d.tmp", path, os.Getpid())
	if os.WriteFile(tmp, b, 0o644) == nil {
		os.Rename(tmp, path)
	}
}

// Inconclusive records an infrastructure problem (maps to exit 2 in the driver).
func (r *Recorder) Inconclusive(msg string) {
	r.mu.Lock()
	r.res.Inconclusive = append(r.res.Inconclusive, msg)
	r.mu.Unlock()
}

func (r *Recorder) SetExhaustive() { r.mu.Lock(); r.res.Exhaustive = true; r.mu.Unlock() }

// Flush writes the shard file. completed=true is written once the generator finished.
func (r *Recorder) Flush(completed bool) {
	if r.out == "" {
		return
	}
	r.mu.Lock()
	defer r.mu.Unlock()
	res := r.res
	res.Completed = completed
	res.Nontrivial = res.Nontrivial[:0]
	for h := range r.nt {
		res.Nontrivial = append(res.Nontrivial, h)
	}
	sort.Slice(res.Nontrivial, func(i, j int) bool { return res.Nontrivial[i] < res.Nontrivial[j] })
	res.Failures = nil
	if r.keepAll {
		res.Failures = r.allFails
	} else if r.lastFail != nil {
		res.Failures = []Failure{*r.lastFail}
	}
	b, err := json.Marshal(res)
	if err != nil {
		b, _ = json.Marshal(map[string]any{"property": res.Property, "shard": res.Shard,
			"inconclusive": []string{"marshal: " + err.Error()}})
	}
	tmp := r.out + ".tmp"
	if err := os.WriteFile(tmp, b, 0o644); err == nil {
		os.Rename(tmp, r.out)
	}
}

// ClearFailure is called at the start of each property evaluation so that only the failure of
// the final (minimal) evaluation survives.
func (r *Recorder) HasFailure() bool {
	r.mu.Lock()
	defer r.mu.Unlock()
	return r.lastFail != nil
}

// WorkDir returns a per-shard scratch directory outside /repo and /verif.
func WorkDir() string {
	d := os.Getenv("VERIF_WORK")
	if d == "" {
		d = filepath.Join(os.TempDir(), "verif-work")
	}
	if FuzzMode() {
		d = filepath.Join(d, fmt.Sprintf("fz%d", os.Getpid()))
	} else {
		d = filepath.Join(d, fmt.Sprintf("s%d", EnvInt("VERIF_SHARD", 0)))
	}
	os.MkdirAll(d, 0o755)
	return d
}

// WriteCurrent stores the case about to be executed, so that an unrecoverable process death
// (stack overflow, runtime throw, hang) still leaves the failing input behind.
func WriteCurrent(c any) {
	out := os.Getenv("VERIF_OUT")
	if out == "" {
		return
	}
	b, err := json.Marshal(c)
	if err != nil {
		return
	}
	if fd := os.Getenv("VERIF_FUZZ_DIR"); fd != "" {
		os.WriteFile(filepath.Join(fd, fmt.Sprintf("current-%d.json", os.Getpid())), b, 0o644)
		return
	}
	os.WriteFile(filepath.Join(out, fmt.Sprintf("shard-%d.current", EnvInt("VERIF_SHARD", 0))), b, 0o644)
}
