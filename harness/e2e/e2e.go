// Package e2e materialises generated workspaces and runs the real go-critic binaries
// (built by the driver from /repo's working tree) over them.
package e2e

import (
	"bytes"
	"context"
	"fmt"
	"os"
	"os/exec"
	"path/filepath"
	"regexp"
	"sort"
	"strings"
	"time"
)

// File is one file of a workspace, path relative to the workspace root.
type File struct {
	Path string `json:"path"`
	Text string `json:"text"`
}

// Workspace is a module tree.
type Workspace struct {
	Module string `json:"module"`
	Files  []File `json:"files"`
}

// Materialize writes the workspace under root (which is created) incl. go.mod.
func (w *Workspace) Materialize(root string) error {
	if err := os.MkdirAll(root, 0o755); err != nil {
		return err
	}
	mod := w.Module
	if mod == "" {
		mod = "verif.ws/m"
	}
	if err := os.WriteFile(filepath.Join(root, "go.mod"), []byte("module "+mod+"\n\ngo 1.21\n"), 0o644); err != nil {
		return err
	}
	for _, f := range w.Files {
		p := filepath.Join(root, f.Path)
		if err := os.MkdirAll(filepath.Dir(p), 0o755); err != nil {
			return err
		}
		if err := os.WriteFile(p, []byte(f.Text), 0o644); err != nil {
			return err
		}
	}
	return nil
}

// PackageDirs returns the distinct directories (relative, "." for root) that contain .go files.
func (w *Workspace) PackageDirs() []string {
	m := map[string]bool{}
	for _, f := range w.Files {
		if strings.HasSuffix(f.Path, ".go") {
			m[filepath.Dir(f.Path)] = true
		}
	}
	var out []string
	for d := range m {
		out = append(out, d)
	}
	sort.Strings(out)
	return out
}

// Result of one process.
type Result struct {
	Exit     int    `json:"exit"`
	Out      string `json:"out"` // stdout + stderr interleaved as written
	TimedOut bool   `json:"timed_out,omitempty"`
	Cmd      string `json:"cmd"`
}

// BinDir is where the driver put the binaries.
func BinDir() string { return os.Getenv("VERIF_BIN") }

// Bin returns the path of a front-end binary.
func Bin(name string) string { return filepath.Join(BinDir(), name) }

// BaseEnv is the controlled environment for front-end runs.
func BaseEnv(extra ...string) []string {
	keep := []string{"PATH", "HOME", "GOCACHE", "GOMODCACHE", "TMPDIR"}
	var env []string
	for _, k := range keep {
		if v, ok := os.LookupEnv(k); ok {
			env = append(env, k+"="+v)
		}
	}
	env = append(env, "GOFLAGS=-mod=mod", "GOPROXY=off", "GOSUMDB=off", "GOTOOLCHAIN=local", "CGO_ENABLED=0", "GONOSUMDB=*", "GOWORK=off")
	return append(env, extra...)
}

// Run executes bin with args in dir.
func Run(bin string, args []string, dir string, env []string, limit time.Duration) Result {
	ctx, cancel := context.WithTimeout(context.Background(), limit)
	defer cancel()
	cmd := exec.CommandContext(ctx, bin, args...)
	cmd.Dir = dir
	cmd.Env = env
	var buf bytes.Buffer
	cmd.Stdout = &buf
	cmd.Stderr = &buf
	err := cmd.Run()
	res := Result{Out: buf.String(), Cmd: filepath.Base(bin) + " " + strings.Join(args, " ")}
	if ctx.Err() == context.DeadlineExceeded {
		res.TimedOut = true
		res.Exit = -2
		return res
	}
	if err != nil {
		if ee, ok := err.(*exec.ExitError); ok {
			res.Exit = ee.ExitCode()
		} else {
			res.Exit = -1
			res.Out += "\n[run error: " + err.Error() + "]"
		}
	}
	return res
}

// Line is one printed diagnostic.
type Line struct {
	Loc     string `json:"loc"` // as printed (may be ./relative, $GOPATH/..., absolute)
	File    string `json:"file"`
	Line    int    `json:"line"`
	Col     int    `json:"col"`
	Checker string `json:"checker"`
	Msg     string `json:"msg"`
}

// a location is a path without spaces (the analysis driver also reports the synthesized test
// main, whose cached source file has no .go suffix)
var reDiag = regexp.MustCompile(`^((?:\./|/|\$GO)[^\s:]*|[^\s:]+\.go):(\d+):(\d+): (\w+): (.*)$`)

// ParseLines extracts diagnostic lines from front-end output; lines that do not look like the
// start of a diagnostic are appended to the previous message (messages may quote multi-line code).
// Non-diagnostic noise before the first diagnostic is returned separately.
func ParseLines(out string) (lines []Line, other []string) {
	for _, l := range strings.Split(strings.TrimRight(out, "\n"), "\n") {
		if m := reDiag.FindStringSubmatch(l); m != nil {
			var ln, col int
			fmt.Sscan(m[2], &ln)
			fmt.Sscan(m[3], &col)
			lines = append(lines, Line{Loc: m[1], File: m[1], Line: ln, Col: col, Checker: m[4], Msg: m[5]})
			continue
		}
		if len(lines) > 0 && !looksLikeNoise(l) {
			lines[len(lines)-1].Msg += "\n" + l
			continue
		}
		if strings.TrimSpace(l) != "" {
			other = append(other, l)
		}
	}
	return
}

func looksLikeNoise(l string) bool {
	for _, p := range []string{"exit status", "panic:", "goroutine ", "fatal error:", "\tdebug:", "debug:", "[signal "} {
		if strings.HasPrefix(l, p) {
			return true
		}
	}
	return false
}

// HasCrashTrace reports whether output shows a Go runtime crash.
func HasCrashTrace(out string) bool {
	for _, p := range []string{"panic:", "fatal error:", "[signal SIG", "goroutine 1 [", "runtime error:"} {
		if strings.Contains(out, p) {
			return true
		}
	}
	return false
}

// Expand resolves a printed location against cwd / GOPATH / GOROOT.
func Expand(loc, cwd, gopath, goroot string) string {
	switch {
	case strings.HasPrefix(loc, "./"):
		return filepath.Join(cwd, loc[2:])
	case strings.HasPrefix(loc, "$GOPATH/"):
		return filepath.Join(gopath, loc[len("$GOPATH/"):])
	case strings.HasPrefix(loc, "$GOROOT/"):
		return filepath.Join(goroot, loc[len("$GOROOT/"):])
	}
	return loc
}

// Key renders a line for multiset comparison (file must already be absolute).
func (l Line) Key() string {
	return fmt.Sprintf("%s:%d:%d: %s: %s", l.File, l.Line, l.Col, l.Checker, l.Msg)
}

// SortedKeys returns the sorted multiset of keys.
func SortedKeys(ls []Line) []string {
	out := make([]string, len(ls))
	for i, l := range ls {
		out[i] = l.Key()
	}
	sort.Strings(out)
	return out
}
