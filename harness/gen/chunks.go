package gen

import (
	"fmt"
	"go/ast"
	"go/token"
	"strings"

	"pgregory.net/rapid"
)

// Chunk is a top-level piece of a file: a declaration with its leading comments, expectation
// directives and blank lines. Chunk 0 is the header (package clause, imports).
type Chunk struct {
	Lines   []string
	Movable bool // receiver-less function declaration
	Padding bool // inserted by the transformation
	Orig    int  // index in the original file (-1 for padding)
}

// SplitChunks cuts src into line-based chunks along the top-level declarations of f.
// ok=false if two declarations share a line (cannot be separated line-wise).
func SplitChunks(fset *token.FileSet, f *ast.File, src []byte) ([]Chunk, bool) {
	lines := strings.Split(string(src), "\n")
	// end line (1-based, inclusive) of the header: last import decl, or the package clause
	headerEnd := fset.PositionFor(f.Name.End(), false).Line
	var decls []ast.Decl
	for _, d := range f.Decls {
		if gd, ok := d.(*ast.GenDecl); ok && gd.Tok == token.IMPORT {
			if l := fset.PositionFor(gd.End(), false).Line; l > headerEnd {
				headerEnd = l
			}
			continue
		}
		decls = append(decls, d)
	}
	var chunks []Chunk
	chunks = append(chunks, Chunk{Lines: lines[:headerEnd], Orig: 0})
	prevEnd := headerEnd
	for i, d := range decls {
		start := fset.PositionFor(d.Pos(), false).Line
		end := fset.PositionFor(d.End(), false).Line
		if start <= prevEnd {
			return nil, false
		}
		// a trailing comment on the last line stays with it (line-based cut)
		stop := end
		if i == len(decls)-1 {
			stop = len(lines)
		}
		if stop > len(lines) {
			stop = len(lines)
		}
		c := Chunk{Lines: lines[prevEnd:stop], Orig: i + 1}
		if fd, ok := d.(*ast.FuncDecl); ok && fd.Recv == nil && fd.Name.Name != "init" && fd.Name.Name != "main" {
			c.Movable = true
		}
		chunks = append(chunks, c)
		prevEnd = stop
	}
	return chunks, true
}

// PaddingKinds are the inserted declarations.
var PaddingKinds = []string{"blank", "var", "emptyfunc", "bodiless", "closurefunc", "type", "gotovar", "busyfunc", "gotovar", "busyfunc", "gotovar", "busyfunc", "methodtype", "initfunc", "constblock", "genericfunc", "comment"}

func paddingLines(kind string, n int) []string {
	switch kind {
	case "blank":
		return []string{"", "", ""}
	case "var":
		return []string{"", fmt.Sprintf("var vpad%d = 0", n), ""}
	case "emptyfunc":
		return []string{"", fmt.Sprintf("func vpad%d() {}", n), ""}
	case "bodiless":
		return []string{"", fmt.Sprintf("func vpad%d()", n), ""}
	case "closurefunc":
		return []string{"", fmt.Sprintf("func vpad%d() {", n), "\t_ = func() {}", "}", ""}
	case "type":
		return []string{"", fmt.Sprintf("type vpad%d struct{}", n), ""}
	case "gotovar":
		// a package-level function value whose body has labels, goto, defer, loops and a return
		return []string{"", fmt.Sprintf("var vpad%d = func(n int) int {", n), "again:", "\tif n > 3 {", "\t\tn--", "\t\tgoto again", "\t}",
			"\tdefer func() { _ = recover() }()", "outer:", "\tfor i := 0; i < n; i++ {", "\t\tfor j := 0; j < i; j++ {", "\t\t\tif j == 2 {", "\t\t\t\tcontinue outer", "\t\t\t}", "\t\t}", "\t}", "\treturn n", "}", ""}
	case "busyfunc":
		return []string{"", fmt.Sprintf("func vpad%d(xs []int, m map[string]int, ch chan int) (res int, err error) {", n), "\tdefer func() { err = nil }()",
			"\tswitch {", "\tcase len(xs) > 2:", "\t\tres++", "\t\tfallthrough", "\tdefault:", "\t\tres--", "\t}",
			"\tselect {", "\tcase v := <-ch:", "\t\tres += v", "\tdefault:", "\t}",
			"\tfor k, v := range m {", "\t\tif k == \"\" {", "\t\t\tbreak", "\t\t}", "\t\tres += v", "\t}",
			"lbl:", "\tfor _, x := range xs {", "\t\tif x < 0 {", "\t\t\tgoto done", "\t\t}", "\t\tif x == 0 {", "\t\t\tbreak lbl", "\t\t}", "\t}", "done:", "\treturn", "}", ""}
	case "methodtype":
		return []string{"", fmt.Sprintf("type vpad%d struct{ n int }", n), "", fmt.Sprintf("func (v vpad%d) Get() int   { return v.n }", n), fmt.Sprintf("func (v *vpad%d) Set(n int) { v.n = n }", n), ""}
	case "initfunc":
		return []string{"", "func init() {", "\tgoto end", "end:", "}", ""}
	case "constblock":
		return []string{"", "const (", fmt.Sprintf("\tvpad%da = iota", n), fmt.Sprintf("\tvpad%db", n), fmt.Sprintf("\tvpad%dc = \"x\"", n), ")", ""}
	case "genericfunc":
		return []string{"", fmt.Sprintf("func vpad%d[T any, U comparable](x T, y U) (T, bool) { var z U; return x, y == z }", n), ""}
	case "comment":
		return []string{"", "", "// vpad: an unrelated, well-formed comment.", "", ""}
	}
	return []string{""}
}

// Transformation describes what DrawTransform did.
type Transformation struct {
	Permuted bool
	Moved    int      // number of movable chunks that changed slot
	Pads     []string // kinds inserted
	Appended int
}

// DrawTransform permutes the movable chunks among their slots, inserts padding between chunks
// and appends unrelated declarations.
func DrawTransform(t *rapid.T, chunks []Chunk) ([]Chunk, Transformation) {
	var tr Transformation
	out := make([]Chunk, len(chunks))
	copy(out, chunks)
	var slots []int
	for i, c := range chunks {
		if c.Movable {
			slots = append(slots, i)
		}
	}
	if len(slots) >= 2 && rapid.IntRange(0, 3).Draw(t, "permute") > 0 {
		perm := rapid.Permutation(seq(len(slots))).Draw(t, "perm")
		for k, s := range slots {
			out[s] = chunks[slots[perm[k]]]
			if perm[k] != k {
				tr.Moved++
			}
		}
		tr.Permuted = tr.Moved > 0
	}
	// padding
	var padded []Chunk
	n := 0
	for i, c := range out {
		if i > 0 && rapid.IntRange(0, 2).Draw(t, "pad") == 0 {
			kind := PaddingKinds[rapid.IntRange(0, len(PaddingKinds)-1).Draw(t, "padkind")]
			n++
			padded = append(padded, Chunk{Lines: paddingLines(kind, n), Padding: true, Orig: -1})
			tr.Pads = append(tr.Pads, kind)
		}
		padded = append(padded, c)
	}
	k := rapid.IntRange(0, 2).Draw(t, "nappend")
	for i := 0; i < k; i++ {
		n++
		kind := PaddingKinds[rapid.IntRange(1, len(PaddingKinds)-2).Draw(t, "appkind")]
		padded = append(padded, Chunk{Lines: paddingLines(kind, n), Padding: true, Orig: -1})
		tr.Appended++
	}
	return padded, tr
}

// JoinChunks renders chunks and returns, for every chunk, its first line (1-based) in the result.
func JoinChunks(chunks []Chunk) (string, []int) {
	var sb strings.Builder
	starts := make([]int, len(chunks))
	line := 1
	for i, c := range chunks {
		starts[i] = line
		for _, l := range c.Lines {
			sb.WriteString(l)
			sb.WriteString("\n")
			line++
		}
	}
	s := sb.String()
	// the original text ended with lines joined by "\n" without a trailing one
	s = strings.TrimSuffix(s, "\n")
	return s, starts
}
