// Package gen contains the input generators (typed mutators of maintainer-written examples,
// a grammar generator with checker kernels, regexp and text generators). Every random choice
// goes through rapid so that shrinking and replay work.
package gen

import (
	"go/ast"
	"go/token"
	"sort"

	"verif/harness/core"
)

// Edit replaces [From,To) (byte offsets in one file) by Text.
type Edit struct {
	File     int
	From, To int
	Text     string
}

// Apply applies non-overlapping edits to the program's sources and returns new sources.
// Overlapping edits make it return ok=false.
func Apply(p *core.Program, edits []Edit) ([]core.Source, bool) {
	by := map[int][]Edit{}
	for _, e := range edits {
		by[e.File] = append(by[e.File], e)
	}
	out := make([]core.Source, len(p.Files))
	for i := range p.Files {
		src := p.Srcs[i]
		es := by[i]
		sort.SliceStable(es, func(a, b int) bool {
			if es[a].From != es[b].From {
				return es[a].From < es[b].From
			}
			return es[a].To < es[b].To
		})
		var buf []byte
		last := 0
		for _, e := range es {
			if e.From < last || e.To < e.From || e.To > len(src) {
				return nil, false
			}
			buf = append(buf, src[last:e.From]...)
			buf = append(buf, e.Text...)
			last = e.To
		}
		buf = append(buf, src[last:]...)
		out[i] = core.Source{Name: baseName(p.Names[i]), Text: string(buf)}
	}
	return out, true
}

func baseName(s string) string {
	for i := len(s) - 1; i >= 0; i-- {
		if s[i] == '/' {
			return s[i+1:]
		}
	}
	return s
}

// off converts a position to a byte offset in its file.
func off(p *core.Program, pos token.Pos) int { return p.Fset.Position(pos).Offset }

// text returns the source text of node n in file fi.
func text(p *core.Program, fi int, n ast.Node) string {
	return string(p.Srcs[fi][off(p, n.Pos()):off(p, n.End())])
}

// Sources returns the unmodified sources of the program.
func Sources(p *core.Program) []core.Source {
	out := make([]core.Source, len(p.Files))
	for i := range p.Files {
		out[i] = core.Source{Name: baseName(p.Names[i]), Text: string(p.Srcs[i])}
	}
	return out
}
