package gen

import (
	"fmt"
	"strings"

	"pgregory.net/rapid"
)

// ExecKernel is a closed, executable function body over the fixed parameter list ExecParams.
// Holes: ‹I› int, ‹U› uint, ‹F› float64, ‹S› string, ‹B› bool, ‹BS› []byte, ‹IL› int literal,
// ‹CMP› comparison operator; ‹K:id› repeats the same text.
type ExecKernel struct {
	Family     string   // checker the kernel is aimed at
	Body       string   // statements; results r0 int, r1 string, r2 bool, r3 float64 are named
	Focus      []string // parameters whose grids are crossed completely (others vary pseudo-randomly)
	NoZeroUint bool     // the rule subtracts from unsigned operands: overflow inputs are excluded
}

// ExecParams is the parameter list of every executable kernel.
const ExecParams = "a, b, c int, u, v uint, f, g float64, s, t string, p, q bool, bs, cs []byte, xs []int"

// ExecResults is the result list.
const ExecResults = "(r0 int, r1 string, r2 bool, r3 float64)"

// ExecHeader: imports and helpers shared by the analysed file and the compiled program.
const ExecHeader = `package main

import (
	"bytes"
	"fmt"
	"strings"
	"time"
)

var (
	_ = bytes.Equal
	_ = fmt.Sprint
	_ = strings.Index
	_ = time.Unix
)

var trace []string

func tr[T any](tag string, v T) T {
	trace = append(trace, tag)
	return v
}

type strT string

func (s strT) String() string { return "<" + string(s) + ">" }

type ptrStr struct{ v string }

func (p *ptrStr) String() string { return p.v }

type namedF float64
type namedI int
type namedS string

type hooks struct {
	f func(int) int
	g func() string
}

type pair struct {
	a   int
	arr [3]int
	s   string
}

func (p pair) Get(d int) int   { return p.a + d }
func (p *pair) Inc(d int) int  { p.a += d; return p.a }
func twoInts(a, b int) (int, int) { return a, b }
func add3(x, y, z int) int     { return x + y*10 + z*100 }
func rec(v ...interface{})     { trace = append(trace, fmt.Sprint(v...)) }
func lenNeg(xs []int) int      { return -1 }
`

// execExpr draws an operand expression of the given kind over the kernel parameters.
func execExpr(t *rapid.T, kind string) string {
	p := func(label string, xs ...string) string { return pick(t, label, xs) }
	impure := rapid.IntRange(0, 9).Draw(t, "impure") < 2
	switch kind {
	case "I":
		if impure {
			return p("I!", `tr("ia", a)`, `tr("ib", b)`, `tr("ic", c+1)`)
		}
		return p("I", "a", "b", "c", "a + b", "a - 1", "b + 1", "1", "2", "0", "len(s)", "len(xs)", "c * 2", "-a", "a % 3", "010", "0x10", "'a'")
	case "U":
		if impure {
			return p("U!", `tr("ua", u)`, `tr("ub", v)`)
		}
		return p("U", "u", "v", "u + 1", "v + u", "uint(1)", "uint(2)")
	case "F":
		if impure {
			return p("F!", `tr("fa", f)`, `tr("fb", g)`)
		}
		return p("F", "f", "g", "f + 1", "g * 2", "0.5", "1.0", "float64(a)", "f - g", "float64(namedF(f))")
	case "NF":
		return p("NF", "namedF(f)", "namedF(g)", "namedF(f) + 1", "namedF(1.5)")
	case "S":
		if impure {
			return p("S!", `tr("sa", s)`, `tr("sb", t)`)
		}
		return p("S", "s", "t", "s + t", `"a"`, `""`, `"ab"`, "string(bs)", "s[:len(s)/2]", "strings.ToUpper(s)")
	case "B":
		if impure {
			return p("B!", `tr("ba", p)`, `tr("bb", q)`)
		}
		return p("B", "p", "q", "a < b", "s == t", "!p", "a == b", "p && q", "true", "false")
	case "BS":
		return p("BS", "bs", "cs", "[]byte(s)", "bs[:len(bs)/2]")
	case "IL":
		return p("IL", "0", "1", "2", "3", "5", "8", "9", "10", "11", "010", "011", "0x8", "0xa", "0o11", "0b1010", "1_0", "'\\n'", "'\\t'", "12")
	case "CMP":
		return p("CMP", "<", "<=", ">", ">=", "==", "!=")
	case "EQ":
		return p("EQ", "==", "!=")
	case "ASSIGNOP":
		return p("ASSIGNOP", "+", "-", "*", "&", "|", "^", "&^")
	}
	panic("exec hole " + kind)
}

// InstantiateExec fills the holes of an executable kernel body.
func InstantiateExec(t *rapid.T, body string) string {
	bound := map[string]string{}
	return holeRE.ReplaceAllStringFunc(body, func(h string) string {
		m := holeRE.FindStringSubmatch(h)
		kind, id := m[1], m[2]
		if id != "" {
			if v, ok := bound[kind+":"+id]; ok {
				return v
			}
		}
		v := execExpr(t, kind)
		if id != "" {
			bound[kind+":"+id] = v
		}
		return v
	})
}

// RenderExecFunc renders a kernel body as function name; asVar renders it as a function
// literal assigned to a package-level variable (an expression outside any function declaration).
func RenderExecFunc(name, body string, asVar bool) string {
	if asVar {
		return fmt.Sprintf("var %s = func(%s) %s {\n%s\nreturn\n}\n", name, ExecParams, ExecResults, strings.TrimSpace(body))
	}
	return fmt.Sprintf("func %s(%s) %s {\n%s\nreturn\n}\n", name, ExecParams, ExecResults, strings.TrimSpace(body))
}

// ExecKernels is Appendix B of DESIGN.md (families 1-20).
var ExecKernels = []ExecKernel{
	// 1 comparison under negation
	{Family: "boolExprSimplify", Body: "r2 = !(‹I› ‹CMP› ‹I›)"},
	{Family: "boolExprSimplify", Body: "r2 = !(‹F› ‹CMP› ‹F›)", Focus: []string{"f", "g"}},
	{Family: "boolExprSimplify", Body: "r2 = !(‹NF› ‹CMP› ‹NF›)", Focus: []string{"f", "g"}},
	{Family: "boolExprSimplify", Body: "r2 = !(‹S› ‹CMP› ‹S›)", Focus: []string{"s", "t"}},
	{Family: "boolExprSimplify", Body: "r2 = !(‹U› ‹CMP› ‹U›)", Focus: []string{"u", "v"}},
	{Family: "boolExprSimplify", Body: "r2 = !!(‹B›)", Focus: []string{"p", "q", "a"}},
	{Family: "boolExprSimplify", Body: "r2 = !(‹B›) ‹EQ› !(‹B›)", Focus: []string{"p", "q", "a"}},
	{Family: "boolExprSimplify", Body: "r2 = !(‹B:x›) ‹EQ› !(‹B:y›)\nr2 = r2 || ((‹B›) == true) != false", Focus: []string{"p", "q", "a"}},
	// 2 a > b || a == b
	{Family: "boolExprSimplify", Body: "r2 = ‹I:x› > ‹I:y› || ‹I:x› == ‹I:y›"},
	{Family: "boolExprSimplify", Body: "r2 = ‹I:x› == ‹I:y› || ‹I:x› < ‹I:y›"},
	{Family: "boolExprSimplify", Body: "r2 = ‹F:x› < ‹F:y› || ‹F:x› == ‹F:y›", Focus: []string{"f", "g"}},
	{Family: "boolExprSimplify", Body: "r2 = ‹S:x› > ‹S:y› || ‹S:x› == ‹S:y›", Focus: []string{"s", "t"}},
	// 3 inc/dec shifting
	{Family: "boolExprSimplify", Body: "r2 = ‹I›+1 > ‹I›"},
	{Family: "boolExprSimplify", Body: "r2 = ‹I› >= ‹I›+1"},
	{Family: "boolExprSimplify", Body: "r2 = ‹I›-1 < ‹I›"},
	{Family: "boolExprSimplify", Body: "r2 = ‹I› <= ‹I›-1"},
	{Family: "boolExprSimplify", Body: "r2 = ‹F›+1 > ‹F›\nr2 = r2 != (‹F› >= ‹F›+1)", Focus: []string{"f", "g"}},
	{Family: "boolExprSimplify", Body: "r2 = ‹F›-1 < ‹F›\nr2 = r2 != (‹F› <= ‹F›-1)", Focus: []string{"f", "g"}},
	{Family: "boolExprSimplify", Body: "r2 = ‹NF›+1 > ‹NF›", Focus: []string{"f", "g"}},
	{Family: "boolExprSimplify", Body: "r2 = ‹U›+1 > ‹U›\nr2 = r2 != (‹U› >= ‹U›+1)", Focus: []string{"u", "v"}, NoZeroUint: true},
	{Family: "boolExprSimplify", Body: "r2 = ‹U›-1 < ‹U›\nr2 = r2 != (‹U› <= ‹U›-1)", Focus: []string{"u", "v"}, NoZeroUint: true},
	// 4 range folding
	{Family: "boolExprSimplify", Body: "r2 = ‹I:x› >= ‹IL› && ‹I:x› < ‹IL›", Focus: []string{"a", "b", "c"}},
	{Family: "boolExprSimplify", Body: "r2 = ‹I:x› > ‹IL› && ‹I:x› <= ‹IL›", Focus: []string{"a", "b", "c"}},
	{Family: "boolExprSimplify", Body: "r2 = ‹I:x› == ‹IL› || ‹I:x› == ‹IL›", Focus: []string{"a", "b", "c"}},
	{Family: "boolExprSimplify", Body: "r2 = ‹I:x› > ‹IL› && ‹I:x› > ‹IL›\nr2 = r2 != (‹I:y› != ‹IL› || ‹I:y› != ‹IL›)", Focus: []string{"a", "b", "c"}},
	{Family: "boolExprSimplify", Body: "r2 = ‹I:x› < ‹IL› || ‹I:x› < ‹IL›\nr2 = r2 != (‹I:y› >= ‹IL› && ‹I:y› <= ‹IL›)", Focus: []string{"a", "b", "c"}},
	{Family: "boolExprSimplify", Body: "r2 = ‹F:x› > 0 && ‹F:x› <= 1\nr2 = r2 != (‹F:y› >= 1 && ‹F:y› < 2)", Focus: []string{"f", "g"}},
	{Family: "boolExprSimplify", Body: "r2 = ‹U:x› >= 1 && ‹U:x› < 2", Focus: []string{"u", "v"}},
	{Family: "boolExprSimplify", Body: "r2 = ‹B:x› && ‹B:x›\nr2 = r2 != (‹B:y› || ‹B:y›)\nr2 = r2 != (‹B› && true) != (false || ‹B›)", Focus: []string{"p", "q", "a"}},
	// 5 compound assignment
	{Family: "assignOp", Body: "x := ‹I›\nx = x ‹ASSIGNOP› ‹I›\nr0 = x"},
	{Family: "assignOp", Body: "x := ‹I›\nx = ‹I› ‹ASSIGNOP› x\ny := ‹I›\ny = ‹I› - y\ny = 3 / (y | 1)\nr0 = x + y*7"},
	{Family: "assignOp", Body: "z := ‹S›\nz = ‹S› + z\nr1 = z\nns := namedS(‹S›)\nns = namedS(‹S›) + ns\nns = ns + \"!\"\nr1 += string(ns)\nst := strT(s)\nst = strT(t) + st\nr1 += string(st)", Focus: []string{"s", "t"}},
	{Family: "assignOp", Body: "x := ‹F›\nx = ‹F› + x\nx = 2 * x\nx = ‹F› - x\nnf := namedF(‹F›)\nnf = namedF(g) * nf\nr3 = x + float64(nf)\nni := namedI(‹I›)\nni = namedI(‹I›) | ni\nni = namedI(b) ^ ni\nr0 = int(ni)", Focus: []string{"f", "g", "a", "b"}},
	{Family: "assignOp", Body: "x := ‹I›\nx = x + 1\nx = x - 1\nx = x / 3\nx = x % 5\nx = x << 2\nx = x >> 1\nr0 = x"},
	{Family: "assignOp", Body: "ys := []int{1, 2, 3, 4}\nys[‹I:i›&3] = ys[‹I:i›&3] + ‹I›\nr0 = ys[0] + ys[1]*10 + ys[2]*100 + ys[3]*1000"},
	{Family: "assignOp", Body: "pr := pair{a: ‹I›}\npp := &pr\npp.a = pp.a * ‹I›\npr.arr[1] = pr.arr[1] + ‹I›\n(*pp).a = (*pp).a - 1\nr0 = pr.a + pr.arr[1]"},
	{Family: "assignOp", Body: "x := ‹F›\nx = x + 1\nx = x * ‹F›\nx = x - ‹F›\nx = x / 2\nr3 = x", Focus: []string{"f", "g"}},
	{Family: "assignOp", Body: "z := ‹S›\nz = z + ‹S›\nr1 = z\nw := ‹U›\nw = w + ‹U›\nw = w << 1\nr0 = int(w)", Focus: []string{"s", "t", "u"}},
	{Family: "assignOp", Body: "m := map[string]int{\"a\": 1}\nm[‹S:k›] = m[‹S:k›] + ‹I›\nr0 = m[\"a\"] + len(m)*100", Focus: []string{"s", "a"}},
	// 6 len idioms
	{Family: "emptyStringTest", Body: "r2 = len(‹S›) == 0\nr2 = r2 != (len(‹S›) != 0)", Focus: []string{"s", "t"}},
	{Family: "emptyStringTest", Body: "r2 = len(‹S›) > 0\nr2 = r2 != (len(‹S›) <= 0)", Focus: []string{"s", "t"}},
	{Family: "emptyStringTest", Body: "r2 = len(namedS(‹S›)) == 0", Focus: []string{"s", "t"}},
	{Family: "sloppyLen", Body: "r2 = len(‹S›) <= 0\nr2 = r2 != (len(xs) <= 0)\nr2 = r2 != (len(‹BS›) <= 0)", Focus: []string{"s", "xs", "bs"}},
	// 7 string/bytes
	{Family: "stringXbytes", Body: "r2 = string(‹BS›) == \"\"\nr2 = r2 != (string(‹BS›) != \"\")", Focus: []string{"bs", "cs", "s"}},
	{Family: "stringXbytes", Body: "r0 = len(string(‹BS›))", Focus: []string{"bs", "cs", "s"}},
	{Family: "stringXbytes", Body: "r2 = string(‹BS›) == string(‹BS›)\nr2 = r2 != (string(bs) != string(cs))", Focus: []string{"bs", "cs", "s"}},
	{Family: "stringXbytes", Body: "dst := make([]byte, 3)\nr0 = copy(dst, []byte(‹S›))\nr1 = string(dst)", Focus: []string{"s", "t"}},
	// 8 redundant slice
	{Family: "unslice", Body: "r1 = ‹S›[:]\nys := xs[:]\nr0 = len(ys) + cap(ys)*100\nzs := bs[:]\nr0 += len(zs)", Focus: []string{"s", "xs", "bs"}},
	{Family: "unslice", Body: "arr := [3]int{1, 2, 3}\nys := arr[:]\nys[0] = a\nr0 = arr[0] + len(ys)\npa := &arr\nws := pa[:]\nws[1] = b\nr0 += arr[1] * 10"},
	// 9 dereference
	{Family: "underef", Body: "pr := pair{a: ‹I›}\npp := &pr\nr0 = (*pp).a\n(*pp).a = ‹I›\nr0 += (*pp).arr[1] + (*pp).Get(1)\npa := &pr.arr\nr0 += (*pa)[2] + len(*pa)\nppp := &pp\nr0 += (**ppp).a"},
	// 11 lambdas
	{Family: "unlambda", Body: "g0 := func(x int) int { return x + c }\nh := func(x int) int { return g0(x) }\nr0 = h(a)"},
	{Family: "unlambda", Body: "g0 := func(x int) int { return x + c }\nh := func(x int) int { return g0(x) }\ng0 = func(x int) int { return x * 2 }\nr0 = h(a) + g0(1)*0"},
	{Family: "unlambda", Body: "pr := pair{a: a}\nh := func(d int) int { return pr.Get(d) }\npr.a = b\nr0 = h(c)"},
	{Family: "unlambda", Body: "pr := &pair{a: a}\nh := func(d int) int { return pr.Inc(d) }\npr = &pair{a: b}\nr0 = h(c)"},
	{Family: "unlambda", Body: "h := func(x, y, z int) int { return add3(x, y, z) }\nk := func(x, y int) (int, int) { return twoInts(x, y) }\nm, n := k(a, b)\nr0 = h(a, b, c) + m + n"},
	{Family: "unlambda", Body: "h := func(x int) string { return fmt.Sprint(x) }\nk := func(z string) string { return strings.ToUpper(z) }\nr1 = h(a) + k(s)", Focus: []string{"a", "s"}},
	{Family: "unlambda", Body: "h := func(int) int { return tr(\"h\", 7) }\nk := func(_ int) int { return tr(\"k\", 8) }\nr0 = h(a) + k(b)"},
	{Family: "unlambda", Body: "var fnv func(int) int\nh := func(x int) int { return fnv(x) }\nfnv = func(x int) int { return x + 1 }\nr0 = h(a)"},
	{Family: "unlambda", Body: "hk := hooks{f: func(x int) int { return x + 1 }}\nh := func(x int) int { return hk.f(x) }\nhk.f = func(x int) int { return x * 2 }\nr0 = h(a)"},
	{Family: "unlambda", Body: "var hk hooks\nh := func(x int) int { return hk.f(x) }\nk := func() string { return hk.g() }\nhk.f = func(x int) int { return x - c }\nhk.g = func() string { return s }\nr0 = h(a)\nr1 = k()", Focus: []string{"a", "c", "s"}},
	{Family: "unlambda", Body: "hp := &hooks{f: func(x int) int { return x + b }}\nh := func(x int) int { return hp.f(x) }\nhp = &hooks{f: func(x int) int { return x * 3 }}\nr0 = h(a)"},
	// range folding with signed / parenthesised bounds
	{Family: "boolExprSimplify", Body: "r2 = ‹I:x› >= -1 && ‹I:x› < 0\nr2 = r2 != (‹I:y› > -3 && ‹I:y› < -1)\nr2 = r2 != (a < (1) || a > (1))\nr2 = r2 != (b >= (2) && b <= (2))", Focus: []string{"a", "b", "c"}},
	{Family: "boolExprSimplify", Body: "r2 = ‹I:x› > -1 && ‹I:x› <= 0\nr2 = r2 != (a <= -2 || a > -1)\nr2 = r2 != (b < +1 || b >= +2)", Focus: []string{"a", "b", "c"}},
	{Family: "boolExprSimplify", Body: "r2 = !p && tr(\"v\", !(a == b))\nr2 = r2 != (q || tr(\"w\", !!p))\nr2 = r2 != ((a > b || a == b) && xs != nil)", Focus: []string{"a", "b", "p"}},
	// 12 defer
	{Family: "deferUnlambda", Body: "defer func() { rec(1, \"x\") }()\nr0 = a"},
	{Family: "deferUnlambda", Body: "x := a\ndefer func() { rec(x) }()\nx = b\nr0 = x"},
	{Family: "deferUnlambda", Body: "pr := &pair{a: a}\ndefer func() { pr.Inc(1) }()\ndefer func() { rec(\"k\", 2) }()\npr = &pair{a: b}\nr0 = pr.a"},
	{Family: "deferUnlambda", Body: "var fnv func(...interface{})\ndefer func() { recover() }()\ndefer func() { fnv(1) }()\nfnv = rec\nr0 = a"},
	// 13 Sprint
	{Family: "redundantSprint", Body: "r1 = fmt.Sprint(‹S›)\nr1 += fmt.Sprintf(\"%s\", ‹S›)\nr1 += fmt.Sprintf(\"%v\", ‹S›)", Focus: []string{"s", "t"}},
	{Family: "redundantSprint", Body: "var sx fmt.Stringer = strT(s)\nr1 = fmt.Sprint(sx)\nr1 += fmt.Sprintf(\"%s\", strT(t))\nr1 += fmt.Sprint(namedS(s))", Focus: []string{"s", "t"}},
	{Family: "redundantSprint", Body: "var ps *ptrStr\nif p {\nps = &ptrStr{s}\n}\ndefer func() {\nif e := recover(); e != nil {\nr1 = \"panic\"\n}\n}()\nr1 = fmt.Sprint(ps)", Focus: []string{"p", "s"}},
	{Family: "redundantSprint", Body: "var sx fmt.Stringer\nif p {\nsx = strT(s)\n}\ndefer func() {\nif e := recover(); e != nil {\nr1 = \"panic\"\n}\n}()\nr1 = fmt.Sprintf(\"%v\", sx)", Focus: []string{"p", "s"}},
	{Family: "redundantSprint", Body: "e := fmt.Errorf(\"e%d\", a)\nr1 = fmt.Sprint(e)\nr1 += fmt.Sprintf(\"%s\", e)"},
	// 14 swap
	{Family: "valSwap", Body: "x, y := ‹I›, ‹I›\ntmp := x\nx = y\ny = tmp\nr0 = x*1000 + y"},
	{Family: "valSwap", Body: "ys := []int{a, b, c}\ntmp := ys[0]\nys[0] = ys[2]\nys[2] = tmp\nr0 = ys[0]*100 + ys[2]", Focus: []string{"a", "b", "c"}},
	{Family: "valSwap", Body: "ys := []int{1, 2, 3}\ni := 0\ntmp := ys[tr(\"i\", i)]\nys[tr(\"i\", i)] = ys[tr(\"j\", 2)]\nys[tr(\"j\", 2)] = tmp\nr0 = ys[0]*100 + ys[2]"},
	{Family: "valSwap", Body: "z, w := s, t\ntmp := z\nz = w\nw = tmp\nr1 = z + \"|\" + w", Focus: []string{"s", "t"}},
	// 15 switch true
	{Family: "switchTrue", Body: "switch true {\ncase ‹B›:\nr0 = 1\ncase ‹B›:\nr0 = 2\ndefault:\nr0 = 3\n}", Focus: []string{"p", "q", "a"}},
	{Family: "switchTrue", Body: "switch x := ‹I›; true {\ncase x > ‹I›:\nr0 = 1\nfallthrough\ncase x == 0:\nr0 += 2\ndefault:\nr0 = 9\n}"},
	// 16 wrappers
	{Family: "wrapperFunc", Body: "r2 = strings.Index(‹S›, ‹S›) >= 0\nr2 = r2 != (strings.Index(‹S›, ‹S›) != -1)", Focus: []string{"s", "t"}},
	{Family: "wrapperFunc", Body: "r2 = strings.IndexAny(‹S›, ‹S›) >= 0\nr2 = r2 != (strings.IndexRune(‹S›, 'a') != -1)\nr2 = r2 != (strings.IndexAny(s, t) != -1)", Focus: []string{"s", "t"}},
	{Family: "wrapperFunc", Body: "r2 = bytes.Index(‹BS›, ‹BS›) >= 0\nr2 = r2 != (bytes.IndexAny(bs, s) != -1)\nr2 = r2 != (bytes.IndexRune(cs, 'b') >= 0)", Focus: []string{"bs", "cs", "s"}},
	{Family: "wrapperFunc", Body: "var x1, x2 string\nif idx := strings.Index(s, t); idx != -1 {\nx1, x2 = s[:idx], s[idx+1:]\n}\nr1 = x1 + \"|\" + x2", Focus: []string{"s", "t"}},
	{Family: "wrapperFunc", Body: "var x1, x2 string\nif idx := strings.Index(s, t); idx >= 0 {\nx1 = s[:idx]\nx2 = s[idx+1:]\n}\nr1 = x1 + \"|\" + x2", Focus: []string{"s", "t"}},
	{Family: "wrapperFunc", Body: "defer func() {\nif e := recover(); e != nil {\nr1 = \"panic\"\n}\n}()\nvar x1, x2 string\nidx := strings.Index(s, t)\nx1, x2 = s[:idx], s[idx+1:]\nr1 = x1 + \"|\" + x2", Focus: []string{"s", "t"}},
	// 17 yoda
	{Family: "yodaStyleExpr", Body: "r2 = 0 == ‹I›\nr2 = r2 != (1 != ‹I›)\nr2 = r2 != (\"a\" == ‹S›)\nvar pp *pair\nif p {\npp = &pair{}\n}\nr2 = r2 != (nil != pp)\nr2 = r2 != (nil == pp)", Focus: []string{"a", "s", "p"}},
	{Family: "yodaStyleExpr", Body: "r2 = 1.5 == ‹F›\nr2 = r2 != (0.0 != ‹F›)", Focus: []string{"f", "g"}},
	// 18 strings.Compare
	{Family: "stringsCompare", Body: "r2 = strings.Compare(‹S›, ‹S›) == 0\nr2 = r2 != (strings.Compare(‹S›, ‹S›) == -1)\nr2 = r2 != (strings.Compare(s, t) < 0)\nr2 = r2 != (strings.Compare(‹S›, t) == 1)\nr2 = r2 != (strings.Compare(s, ‹S›) > 0)", Focus: []string{"s", "t"}},
	// 19 new deref
	{Family: "newDeref", Body: "r0 = *new(int) + int(*new(namedI)) + int(*new(uint8)) + int(*new(int64)) + int(*new(rune))\nr1 = *new(string) + string(*new(namedS))\nr2 = *new(bool)\nr3 = *new(float64) + float64(*new(namedF)) + float64(*new(float32))"},
	{Family: "newDeref", Body: "x0 := *new([3]int)\ny0 := *new(pair)\nz0 := *new([]int)\nw0 := *new(map[string]int)\nv0 := *new(*int)\nfn0 := *new(func() int)\ni0 := *new(interface{})\nch0 := *new(chan int)\ncx0 := *new(complex128)\nr0 = x0[0] + y0.a + len(z0) + len(w0)\nr2 = v0 == nil && fn0 == nil && i0 == nil && ch0 == nil && cx0 == 0\nr1 = fmt.Sprintf(\"%T %T %T %T %v\", x0, y0, cx0, v0, cx0)"},
	{Family: "newDeref", Body: "a0 := *new(float32)\nb0 := *new(uint8)\nc0 := *new(complex64)\nd0 := *new(rune)\ne0 := *new(complex128)\nf0 := *new(float64)\ng0 := *new(uint)\nh0 := *new(namedF)\ni0 := *new(int)\nj0 := *new(uintptr)\nvar k0 interface{} = *new(complex128)\nr1 = fmt.Sprintf(\"%T %T %T %T %T %T %T %T %T %T %T|%v %v\", a0, b0, c0, d0, e0, f0, g0, h0, i0, j0, k0, e0, k0)\nr1 += fmt.Sprint(*new(complex128), *new(int8), *new(string) == \"\", real(*new(complex128)))"},
	// 20 time
	{Family: "timeExprSimplify", Body: "tm := time.Unix(int64(a)*1000+int64(b), int64(c)*1000003)\nr0 = int(tm.Unix() / 1000)\nr0 += int(tm.UnixNano()*1000) % 1000003", Focus: []string{"a", "b", "c"}},
	{Family: "timeExprSimplify", Body: "tm := time.Unix(int64(a)*1000+int64(b), int64(c)*1000003)\nptm := &tm\nr0 = int(ptm.Unix() / 1000)", Focus: []string{"a", "b", "c"}},
	// stringConcatSimplify and equalFold do not claim equivalence in C10's list but stringConcat is a pure rewrite
	{Family: "stringConcatSimplify", Body: "r1 = strings.Join([]string{‹S›, ‹S›}, \"\")\nr1 += strings.Join([]string{‹S›, ‹S›, ‹S›}, \"\")\nr1 += strings.Join([]string{‹S›, ‹S›}, ‹S›)", Focus: []string{"s", "t"}},
}

// ExecKernelsFor returns kernels of the named families (all if none given).
func ExecKernelsFor(fams ...string) []ExecKernel {
	if len(fams) == 0 {
		return ExecKernels
	}
	var out []ExecKernel
	for _, k := range ExecKernels {
		for _, f := range fams {
			if k.Family == f {
				out = append(out, k)
			}
		}
	}
	return out
}
