package gen

import (
	"fmt"
	"go/ast"
	"go/parser"
	"go/token"
	"go/types"
	"sort"
	"strings"
	"sync"

	"verif/harness/core"
)

// FakeablePkgs are std packages for which a user package with the same API (functions are
// user-defined namesakes; types, vars and consts alias the real ones) is generated.
var FakeablePkgs = []string{
	"strings", "bytes", "fmt", "regexp", "sort", "path/filepath", "path", "flag", "log", "os", "time",
	"errors", "io", "unicode/utf8", "unicode", "net/http", "net/http/httptest", "strconv",
	"sync", "context", "database/sql", "image/draw",
}

// FakePath maps a std import path to the fake's import path.
func FakePath(std string) string { return "veriffake/" + std }

// FakeLocalName is the package name of the fake (same as the real one).
func FakeLocalName(std string) string {
	if i := strings.LastIndexByte(std, '/'); i >= 0 {
		return std[i+1:]
	}
	return std
}

var (
	fakeOnce sync.Once
	fakeHave = map[string]bool{}
	// FakeSrc holds the generated sources (also materialised on disk for end-to-end runs).
	FakeSrc = map[string]string{}
)

// IsFakePath reports whether an import path denotes a generated namesake package.
func IsFakePath(p string) bool { return strings.HasPrefix(p, "veriffake/") }

// HasFake reports whether a namesake package exists for the std path.
func HasFake(std string) bool {
	EnsureFakes()
	return fakeHave[std]
}

// EnsureFakes generates and registers all fakes once per process.
func EnsureFakes() {
	fakeOnce.Do(func() {
		for _, path := range FakeablePkgs {
			src, err := buildFake(path)
			if err != nil {
				continue
			}
			FakeSrc[path] = src
			fakeHave[path] = true
			core.RegisterFakePackage(FakePath(path), src)
		}
	})
}

func buildFake(path string) (string, error) {
	real, err := core.Importer.Import(path)
	if err != nil {
		return "", err
	}
	drop := map[string]bool{}
	var lastErr error
	for attempt := 0; attempt < 8; attempt++ {
		src, lineOwner := renderFake(real, drop)
		fset := token.NewFileSet()
		f, err := parser.ParseFile(fset, "fake.go", src, 0)
		if err != nil {
			return "", err
		}
		var bad []string
		conf := types.Config{Importer: core.Importer, Sizes: core.Sizes, Error: func(e error) {
			if te, ok := e.(types.Error); ok {
				line := fset.Position(te.Pos).Line
				if name, ok := lineOwner[line]; ok {
					bad = append(bad, name)
				}
			}
			lastErr = e
		}}
		conf.Check(FakePath(path), fset, []*ast.File{f}, nil)
		if len(bad) == 0 && lastErr == nil {
			return src, nil
		}
		if len(bad) == 0 {
			return "", lastErr
		}
		for _, b := range bad {
			drop[b] = true
		}
		lastErr = nil
	}
	return "", fmt.Errorf("fake %s: does not converge", path)
}

func renderFake(real *types.Package, drop map[string]bool) (string, map[int]string) {
	imports := map[string]string{} // path -> local alias
	q := func(p *types.Package) string {
		if p == real {
			return ""
		}
		if a, ok := imports[p.Path()]; ok {
			return a
		}
		a := fmt.Sprintf("p%d_", len(imports))
		imports[p.Path()] = a
		return a
	}
	names := real.Scope().Names()
	sort.Strings(names)
	var decls []string
	var owners []string
	for _, n := range names {
		obj := real.Scope().Lookup(n)
		if !obj.Exported() || drop[n] {
			continue
		}
		switch o := obj.(type) {
		case *types.Func:
			sig := o.Type().(*types.Signature)
			if sig.TypeParams() != nil {
				continue
			}
			s := types.ObjectString(o, q)
			decls = append(decls, s+` { panic("fake") }`)
			owners = append(owners, n)
		case *types.TypeName:
			if named, ok := o.Type().(*types.Named); ok && named.TypeParams() != nil {
				continue
			}
			decls = append(decls, fmt.Sprintf("type %s = real_.%s", n, n))
			owners = append(owners, n)
		case *types.Var:
			decls = append(decls, fmt.Sprintf("var %s = real_.%s", n, n))
			owners = append(owners, n)
		case *types.Const:
			decls = append(decls, fmt.Sprintf("const %s = real_.%s", n, n))
			owners = append(owners, n)
		}
	}
	var sb strings.Builder
	fmt.Fprintf(&sb, "package %s\n", real.Name())
	fmt.Fprintf(&sb, "import real_ %q\n", real.Path())
	var ipaths []string
	for p := range imports {
		ipaths = append(ipaths, p)
	}
	sort.Strings(ipaths)
	for _, p := range ipaths {
		fmt.Fprintf(&sb, "import %s %q\n", imports[p], p)
	}
	fmt.Fprintf(&sb, "var _ = real_.%s\n", firstExported(real))
	for _, p := range ipaths {
		// keep every import used even when its user is dropped later
		fmt.Fprintf(&sb, "var _ %s\n", anyTypeOf(imports[p], p))
	}
	lineOwner := map[int]string{}
	line := strings.Count(sb.String(), "\n") + 1
	for i, d := range decls {
		lineOwner[line] = owners[i]
		sb.WriteString(d)
		sb.WriteString("\n")
		line++
	}
	return sb.String(), lineOwner
}

func firstExported(p *types.Package) string {
	names := p.Scope().Names()
	sort.Strings(names)
	for _, n := range names {
		o := p.Scope().Lookup(n)
		if !o.Exported() {
			continue
		}
		switch o.(type) {
		case *types.Func, *types.Var, *types.Const:
			return n
		}
	}
	return "X"
}

// anyTypeOf returns a type expression from package path (used to keep the import alive).
func anyTypeOf(alias, path string) string {
	pkg, err := core.Importer.Import(path)
	if err != nil {
		return "int"
	}
	names := pkg.Scope().Names()
	sort.Strings(names)
	for _, n := range names {
		o := pkg.Scope().Lookup(n)
		if tn, ok := o.(*types.TypeName); ok && o.Exported() {
			if named, ok := tn.Type().(*types.Named); ok && named.TypeParams() != nil {
				continue
			}
			return alias + "." + n
		}
	}
	return "int"
}
