package gen

import (
	"fmt"
	"strings"

	"pgregory.net/rapid"

	"verif/harness/core"
)

var importPool = []struct{ path, name, sym string }{
	{"fmt", "fmt", "Sprint"}, {"strings", "strings", "Index"}, {"os", "os", "Exit"}, {"bytes", "bytes", "Equal"},
	{"sort", "sort", "Ints"}, {"io", "io", "EOF"}, {"errors", "errors", "New"}, {"time", "time", "Now"},
	{"path/filepath", "filepath", "Join"}, {"regexp", "regexp", "MustCompile"}, {"log", "log", "Fatal"},
	{"strconv", "strconv", "Itoa"}, {"math", "math", "Pi"}, {"flag", "flag", "Bool"},
}

// DrawImportHeavyFile builds a file with several duplicated import groups and several locals
// shadowing imports at once: the shapes on which a map-ordered emitter shows its order.
func DrawImportHeavyFile(t *rapid.T) []core.Source {
	n := rapid.IntRange(2, 6).Draw(t, "npkgs")
	perm := rapid.Permutation(seq(len(importPool))).Draw(t, "pkgs")[:n]
	var imps, uses, shadows []string
	for _, pi := range perm {
		ip := importPool[pi]
		k := rapid.IntRange(1, 3).Draw(t, "ndup")
		for j := 0; j < k; j++ {
			name := ip.name
			if j == 0 {
				imps = append(imps, fmt.Sprintf("\t%q", ip.path))
			} else {
				name = fmt.Sprintf("%s%d", ip.name, j)
				imps = append(imps, fmt.Sprintf("\t%s %q", name, ip.path))
			}
			uses = append(uses, fmt.Sprintf("var _ = %s.%s", name, ip.sym))
		}
		if rapid.Bool().Draw(t, "shadow") {
			shadows = append(shadows, fmt.Sprintf("\t%s := 1\n\t_ = %s", ip.name, ip.name))
		}
	}
	// order of import lines is itself drawn
	order := rapid.Permutation(seq(len(imps))).Draw(t, "order")
	var sb strings.Builder
	sb.WriteString("package p\n\nimport (\n")
	for _, i := range order {
		sb.WriteString(imps[i] + "\n")
	}
	sb.WriteString(")\n\n")
	sb.WriteString(strings.Join(uses, "\n"))
	sb.WriteString("\n\nfunc shadows() {\n")
	sb.WriteString(strings.Join(shadows, "\n"))
	sb.WriteString("\n}\n")
	return []core.Source{{Name: "imports.go", Text: sb.String()}}
}

func seq(n int) []int {
	out := make([]int, n)
	for i := range out {
		out[i] = i
	}
	return out
}
