package gen

import (
	"fmt"
	"os"
	"regexp"
	"strconv"
	"strings"

	"pgregory.net/rapid"

	"verif/harness/core"
)

// KernelHeader is the package clause, import block and import keep-alives of a kernel file.
const KernelHeader = `package p

import (
	"bytes"
	"database/sql"
	"errors"
	"flag"
	"fmt"
	"io"
	"log"
	"net/http"
	"net/http/httptest"
	"os"
	"path/filepath"
	"regexp"
	"sort"
	"strings"
	"sync"
	"time"
	"unicode"
	"unicode/utf8"
)

var (
	_ = bytes.Index
	_ = errors.New
	_ = flag.Bool
	_ = fmt.Sprint
	_ = io.WriteString
	_ = log.Fatal
	_ = http.Error
	_ = httptest.NewRequest
	_ = os.Exit
	_ = filepath.Join
	_ = regexp.MustCompile
	_ = sort.Slice
	_ = strings.Index
	_ sync.Mutex
	_ = time.Now
	_ = unicode.ToTitle
	_ = utf8.RuneLen
	_ *sql.DB
)

`

// KernelDecls declares the material every kernel function may use (once per package).
const KernelDecls = `type S struct {
	a, b int
	s    string
	f    func() int
	g    func(int) int
	p    *S
	xs   []int
	m    map[string]int
	arr  [4]int
	mu   sync.Mutex
}

func (s S) M() int          { return s.a }
func (s *S) PM() int        { return s.b }
func (s S) Get(i int) int   { return s.a + i }
func (s S) String() string  { return s.s }
func (s S) Equal(o S) bool  { return s.a == o.a }
func (s S) Less(o S) bool   { return s.a < o.a }

type MyInt int
type MyFloat float64
type MyStr string
type Big struct{ a [40]int64 }
type Iface interface{ M() int }
type Opt func(*S)

func tr(v int) int                      { trace = append(trace, v); return v }
func trs(v string) string               { trace = append(trace, len(v)); return v }
func trb(v bool) bool                   { trace = append(trace, 1); return v }
func trf(v float64) float64             { trace = append(trace, 2); return v }
func two() (int, int)                   { return 1, 2 }
func pair() (string, error)             { return "", nil }
func twoStr() (string, string)          { return "a", "b" }
func three() (int, string, bool)        { return 0, "", false }
func mark(int)                          {}
func sink(...interface{})               {}
func withOpts(a, b int, opts ...Opt)    {}
func optA() Opt                         { return nil }
func newS() *S                          { return &S{} }
func getErr() error                     { return nil }
func ints() []int                       { return nil }

var trace []int
var gi int
var gs string
var gxs []int
var ErrGlobal = errors.New("x")
`

// KernelPreamble = header + declarations (single-file packages).
const KernelPreamble = KernelHeader + KernelDecls

// KernelParams is the parameter list shared by all kernel functions.
const KernelParams = `i, j, n int, u, u2 uint, f, g float64, s, s2, sep string, b, b2 bool, xs, ys []int, ` +
	`bs, bs2 []byte, ss []string, m map[string]int, p *S, st S, e error, a interface{}, arr [4]int, parr *[4]int, ` +
	`fn func(int) int, ch chan int, mi MyInt, mf MyFloat, ms MyStr, tm time.Time, ptm *time.Time, ` +
	`sb *strings.Builder, buf *bytes.Buffer, w io.Writer, re *regexp.Regexp, mu *sync.Mutex, rwm *sync.RWMutex, ` +
	`wg *sync.WaitGroup, smap *sync.Map, rw http.ResponseWriter, req *http.Request, pi *int, ppi **int, ` +
	`sx fmt.Stringer, db *sql.DB, big Big, bigs []Big, iface Iface, r rune, fs []float64, i8 int8, i32 int32, i64 int64`

// Kernel is a statement- or declaration-level template with typed holes ‹kind› / ‹kind:id›.
type Kernel struct {
	Checker string
	Decl    bool // template is a sequence of top-level declarations (§ = unique number)
	Text    string
}

var holeRE = regexp.MustCompile(`‹(\w+)(?::(\w+))?›`)

// ExprGen generates expressions of the kernel type universe.
type ExprGen struct {
	T        *rapid.T
	PureOnly bool
	Avoid    map[string]bool // builtin names not to use
}

func (g *ExprGen) pickS(label string, xs ...string) string { return pick(g.T, label, xs) }

func (g *ExprGen) depthOK(d int) bool { return d < 2 && rapid.IntRange(0, 9).Draw(g.T, "deeper") < 4 }

// Expr returns source text of an expression of the given kind.
func (g *ExprGen) Expr(kind string, d int) string {
	deep := g.depthOK(d)
	impure := !g.PureOnly && rapid.IntRange(0, 9).Draw(g.T, "impure") < 2
	switch kind {
	case "int":
		if impure {
			return g.pickS("int!", "tr("+g.Expr("int", d+1)+")", "fn(i)", "st.f()", "p.g(j)", "<-ch", "st.M()", "p.PM()", "newS().a")
		}
		if deep {
			switch rapid.IntRange(0, 8).Draw(g.T, "intform") {
			case 0:
				if rapid.IntRange(0, 5).Draw(g.T, "mod") == 0 {
					return g.Expr("int", d+1) + " % " + g.pickS("modarg", "3", "7", "n", "(j + 1)")
				}
				return g.Expr("int", d+1) + g.pickS("intop", " + ", " - ", " * ", " | ", " & ", " ^ ") + g.Expr("int", d+1)
			case 1:
				return "(" + g.Expr("int", d+1) + ")"
			case 2:
				if !g.Avoid["len"] {
					return "len(" + g.Expr(g.pickS("lenarg", "ints", "str", "bytes", "strs"), d+1) + ")"
				}
			case 3:
				return "xs[" + g.pickS("idx", "i", "j", "n", "i+1", "tr(i)", "0") + "]"
			case 4:
				return "m[" + g.Expr("str", d+1) + "]"
			case 5:
				return "int(" + g.Expr(g.pickS("conv", "uint", "f64", "int"), d+1) + ")"
			case 6:
				return "-" + paren(g.Expr("int", d+1))
			case 7:
				return "*pi"
			}
		}
		return g.pickS("int0", "i", "j", "n", "0", "1", "2", "10", "-1", "st.a", "p.b", "xs[0]", "arr[1]", "gi", "0x10", "010", "0o7", "'a'", "1_000", "int(mi)")
	case "uint":
		if deep {
			return g.pickS("uint1", "u + u2", "u - 1", "uint(i)", "u << 1", "(u)")
		}
		return g.pickS("uint0", "u", "u2", "uint(1)", "uint(0)")
	case "f64":
		if impure {
			return "trf(" + g.Expr("f64", d+1) + ")"
		}
		if deep {
			return g.pickS("f641", "f + g", "f * 2", "float64(i)", "-f", "(f)", "f / g", "fs[i]", "float64(mf)")
		}
		return g.pickS("f640", "f", "g", "1.5", "0.0", "1e3", "2.", ".5", "0x1p-2")
	case "str":
		if impure {
			return g.pickS("str!", "trs("+g.Expr("str", d+1)+")", "st.String()", "fmt.Sprint(i)", "sx.String()")
		}
		if deep {
			switch rapid.IntRange(0, 5).Draw(g.T, "strform") {
			case 0:
				return g.Expr("str", d+1) + " + " + g.Expr("str", d+1)
			case 1:
				return "string(" + g.Expr("bytes", d+1) + ")"
			case 2:
				return "ss[" + g.pickS("idx", "i", "j", "n", "i+1", "tr(i)", "0") + "]"
			case 3:
				return g.Expr("str", d+1) + "[1:]"
			case 4:
				return "(" + g.Expr("str", d+1) + ")"
			}
		}
		return g.pickS("str0", "s", "s2", "sep", `""`, `"a"`, `"a b"`, "`raw`", "st.s", "gs", "string(ms)", `"é"`, `"%s"`, `"\n"`, `"%d items"`, `"100%"`)
	case "bool":
		if impure {
			return "trb(" + g.Expr("bool", d+1) + ")"
		}
		if deep {
			switch rapid.IntRange(0, 6).Draw(g.T, "boolform") {
			case 0:
				return g.Expr("int", d+1) + g.pickS("cmp", " < ", " <= ", " > ", " >= ", " == ", " != ") + g.Expr("int", d+1)
			case 1:
				return g.Expr("bool", d+1) + g.pickS("lop", " && ", " || ") + g.Expr("bool", d+1)
			case 2:
				return "!" + paren(g.Expr("bool", d+1))
			case 3:
				return g.Expr("str", d+1) + g.pickS("scmp", " == ", " != ", " < ") + g.Expr("str", d+1)
			case 4:
				return g.Expr("f64", d+1) + g.pickS("fcmp", " < ", " >= ", " == ", " != ") + g.Expr("f64", d+1)
			case 5:
				return "(" + g.Expr("bool", d+1) + ")"
			}
		}
		return g.pickS("bool0", "b", "b2", "true", "false", "e != nil", "p == nil", "a == nil", "i > 0")
	case "ints":
		if impure {
			return "ints()"
		}
		if deep {
			return g.pickS("ints1", "xs[1:]", "xs[:i]", "st.xs", "p.xs", "arr[:]", "[]int{"+g.Expr("int", d+1)+"}", "(xs)", "xs[:]", "parr[:]")
		}
		return g.pickS("ints0", "xs", "ys", "gxs", "st.xs", "[]int{}", "[]int{1, 2}")
	case "bytes":
		if deep {
			return g.pickS("bytes1", "bs[1:]", "[]byte("+g.Expr("str", d+1)+")", "(bs)", "buf.Bytes()", "bs[:]")
		}
		return g.pickS("bytes0", "bs", "bs2", `[]byte("a")`, "[]byte{}")
	case "strs":
		return g.pickS("strs0", "ss", "ss[1:]", `[]string{"a"}`, `strings.Split(s, sep)`)
	case "S":
		return g.pickS("S0", "st", "*p", "S{}", "S{a: 1}", "*newS()", "(st)")
	case "pS":
		return g.pickS("pS0", "p", "&st", "newS()", "st.p", "p.p", "(p)")
	case "err":
		return g.pickS("err0", "e", "nil", "getErr()", `errors.New("x")`, "ErrGlobal")
	case "any":
		return g.pickS("any0", "a", "nil", "i", "s", "st", "p", "e", "interface{}(i)")
	case "lvint":
		return g.pickS("lvint", "i", "j", "xs[i]", "st.a", "p.a", "*pi", "m[s]", "arr[0]", "gi", "xs[tr(i)]", "p.p.a", "(*p).a", "**ppi")
	case "lvstr":
		return g.pickS("lvstr", "s", "s2", "st.s", "ss[i]", "gs", "p.s")
	case "lvints":
		return g.pickS("lvints", "xs", "ys", "st.xs", "p.xs", "gxs")
	case "mark":
		return "mark(" + strconv.Itoa(rapid.IntRange(0, 99).Draw(g.T, "markn")) + ")"
	case "stmt":
		return g.pickS("stmt", "mark(7)", "i++", "_ = s", "sink(i, s)", "mark(i % 3)", `sink("%d", i)`, "j = i", "", "{ }", "if b { return }", "for range xs { }", "defer mark(1)", "s += sep", "xs = append(xs, i)", "var _ = 0", "_ = 0")
	case "cmpop":
		return g.pickS("cmpop", "<", "<=", ">", ">=", "==", "!=")
	case "intlit":
		return g.pickS("intlit", "0", "1", "2", "5", "10", "010", "0x10", "0o17", "0b11", "1_0", "'a'", "100")
	case "strlit":
		return g.pickS("strlit", `""`, `"a"`, `"abc"`, `"a|b"`, "`x`", `"%s"`, `"'%s'"`, `"\"%s\""`, `"."`, `"/"`, `"%d%%"`, `"%v %"`)
	case "regex":
		rg := &RegexGen{T: g.T}
		for try := 0; try < 4; try++ {
			if pat, ok := rg.Pattern(); ok {
				if rapid.Bool().Draw(g.T, "rawRegex") && !strings.Contains(pat, "`") {
					return "`" + pat + "`"
				}
				return strconv.Quote(pat)
			}
		}
		return "`a+`"
	case "caretpat":
		return "`" + g.pickS("caretpat", "a|^b", "ab^c", "a^", "(a|^b)", "x|^y", "xy^z", "^a|^b", "ab|^c", "a$b", "a|b$", "(a$)|b", "^a^b", "a|^b|^c", "ab^", "(^a)(^b)", "a(?:^b|c)") + "`"
	case "size":
		return g.pickS("size", "1", "2", "8", "15", "16", "17", "20", "64", "65", "200", "1000")
	case "ntype":
		return g.pickS("ntype", "*S", "[]int", "map[string]int", "func()", "chan int", "<-chan int", "interface{}", "error",
			"func(int) int", "*[4]int", "[]*S", "**int", "chan<- int", "*int", "func() (int, error)", "any", "Iface")
	case "type":
		return g.pickS("type", "int", "string", "S", "*S", "[]int", "map[string]int", "MyInt", "float64", "complex128",
			"func()", "func(int) int", "chan int", "<-chan int", "interface{}", "error", "[4]int", "struct{}", "struct{ a int }",
			"uintptr", "bool", "Big", "*[4]int", "rune", "byte", "any", "(int)", "(*S)", "[]*S", "map[string]*S", "MyFloat", "MyStr",
			"Iface", "[0]int", "**int", "chan<- int", "func(...int)", "[]func()", "uint8", "int64")
	}
	panic("unknown hole kind " + kind)
}

// Instantiate fills the holes of a template.
func (g *ExprGen) Instantiate(tmpl string) string {
	bound := map[string]string{}
	var sb strings.Builder
	last := 0
	for _, loc := range holeRE.FindAllStringSubmatchIndex(tmpl, -1) {
		sb.WriteString(tmpl[last:loc[0]])
		last = loc[1]
		kind := tmpl[loc[2]:loc[3]]
		id := ""
		if loc[4] >= 0 {
			id = tmpl[loc[4]:loc[5]]
		}
		v, ok := bound[kind+":"+id]
		if id == "" || !ok {
			save := g.PureOnly
			if id != "" {
				// repeated operands are kept pure half of the time so that "same expression"
				// rules see both pure and impure instances
				g.PureOnly = save || rapid.Bool().Draw(g.T, "purebound")
			}
			v = g.Expr(kind, 0)
			g.PureOnly = save
			if id != "" {
				bound[kind+":"+id] = v
			}
		}
		if loc[0] > 0 && strings.ContainsRune("!-*&", rune(tmpl[loc[0]-1])) {
			v = paren(v)
		}
		sb.WriteString(v)
	}
	sb.WriteString(tmpl[last:])
	return sb.String()
}

// DrawKernelFile builds one file from 1..6 kernels (statement kernels are wrapped in functions).
func DrawKernelFile(t *rapid.T) []core.Source {
	g := &ExprGen{T: t, Avoid: map[string]bool{}}
	n := rapid.IntRange(1, 6).Draw(t, "nkernels")
	var sb strings.Builder
	minimal := rapid.Bool().Draw(t, "minimalImports")
	if !minimal {
		sb.WriteString(KernelPreamble)
	} else {
		sb.WriteString(KernelDecls)
	}
	// one case in three instantiates several kernels of ONE checker family, so that same-named
	// local declarations, repeated messages and per-checker caches interact within a file
	sameFamily := rapid.IntRange(0, 2).Draw(t, "sameFamily") == 0
	var family []Kernel
	if f := os.Getenv("VERIF_KERNEL_FOCUS"); f != "" {
		// development aid: restrict to one checker's kernels
		sameFamily, family = true, KernelsFor(f)
	}
	for k := 0; k < n; k++ {
		var kr Kernel
		if sameFamily && family != nil {
			kr = family[rapid.IntRange(0, len(family)-1).Draw(t, "familyKernel")]
		} else {
			kr = Kernels[rapid.IntRange(0, len(Kernels)-1).Draw(t, "kernel")]
			if sameFamily {
				family = KernelsFor(kr.Checker)
				if n < 2 {
					n = 2
				}
			}
		}
		sb.WriteString(RenderKernel(g, kr, k))
	}
	if minimal {
		sb.WriteString(ShadowHelper(0))
		body := sb.String()
		return []core.Source{{Name: "k.go", Text: MinimalHeader("p", body) + "\n" + body}}
	}
	return []core.Source{{Name: "k.go", Text: sb.String()}}
}

// RenderKernel instantiates one kernel as top-level declaration text.
func RenderKernel(g *ExprGen, kr Kernel, k int) string {
	body := g.Instantiate(kr.Text)
	body = strings.ReplaceAll(body, "§", strconv.Itoa(k))
	if kr.Decl {
		return "\n// kernel " + kr.Checker + "\n" + body + "\n"
	}
	return fmt.Sprintf("\n// kernel %s\nfunc k%d(%s) (r0 int, r1 string, r2 bool) {\n%s\nreturn\n}\n", kr.Checker, k, KernelParams, body)
}

// KernelFileFor renders a file with the given kernels (used by tests that need one family).
func KernelFileFor(t *rapid.T, ks []Kernel, pure bool) []core.Source {
	g := &ExprGen{T: t, Avoid: map[string]bool{}, PureOnly: pure}
	var sb strings.Builder
	sb.WriteString(KernelPreamble)
	for k, kr := range ks {
		sb.WriteString(RenderKernel(g, kr, k))
	}
	return []core.Source{{Name: "k.go", Text: sb.String()}}
}

// KernelsFor returns the kernels of the named checkers.
func KernelsFor(names ...string) []Kernel {
	var out []Kernel
	for _, k := range Kernels {
		for _, n := range names {
			if k.Checker == n {
				out = append(out, k)
			}
		}
	}
	return out
}

// paren parenthesises a compound expression used as a unary operand.
func paren(e string) string {
	if strings.ContainsAny(e, " ") {
		return "(" + e + ")"
	}
	return e
}
