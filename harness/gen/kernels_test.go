package gen

import (
	"go/token"
	"os"
	"testing"

	"pgregory.net/rapid"

	"verif/harness/core"
)

// TestKernelsTypeCheck is the generator's self-test: every kernel must produce well-typed files.
func TestKernelsTypeCheck(t *testing.T) {
	EnsureFakes()
	dir, _ := os.MkdirTemp("", "kern")
	defer os.RemoveAll(dir)
	bad := 0
	for ki, kr := range Kernels {
		kr := kr
		fails := 0
		var firstErr string
		for seed := 0; seed < 6; seed++ {
			srcs := rapid.Custom(func(t *rapid.T) []core.Source {
				rapid.Int().Draw(t, "dummy")
				g := &ExprGen{T: t, Avoid: map[string]bool{}}
				return []core.Source{{Name: "k.go", Text: KernelPreamble + RenderKernel(g, kr, 0)}}
			}).Example(seed)
			p := core.Load(token.NewFileSet(), dir, "p", srcs, core.LoadOpts{})
			if !p.OK() {
				fails++
				if firstErr == "" {
					firstErr = p.ErrSummary() + "\n" + srcs[0].Text[len(KernelPreamble):]
				}
			}
		}
		if fails > 0 {
			bad++
			t.Errorf("kernel #%d %s: %d/6 instantiations rejected: %s", ki, kr.Checker, fails, firstErr)
		}
	}
	t.Logf("%d kernels, %d with rejections", len(Kernels), bad)
}

func TestFakes(t *testing.T) {
	EnsureFakes()
	for _, p := range FakeablePkgs {
		if !HasFake(p) {
			t.Errorf("no fake for %s", p)
		}
	}
}
