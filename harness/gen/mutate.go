package gen

import (
	"fmt"
	"go/ast"
	"go/constant"
	"go/token"
	"go/types"
	"sort"
	"strconv"
	"strings"

	"pgregory.net/rapid"

	"verif/harness/core"
)

// BuiltinNames are the identifiers a user may legally re-declare.
var BuiltinNames = []string{
	"append", "cap", "clear", "close", "complex", "copy", "delete", "imag", "len", "make", "max", "min",
	"new", "panic", "print", "println", "real", "recover",
	"bool", "byte", "error", "int", "int8", "int16", "int32", "int64", "uint", "uint8", "uint32", "rune",
	"string", "float64", "any", "nil", "true", "false", "iota",
}

// StdPkgNames are package names whose spelling checkers look at.
var StdPkgNames = []string{
	"strings", "bytes", "fmt", "regexp", "sort", "filepath", "flag", "log", "os", "http", "time",
	"sync", "errors", "io", "utf8", "unicode", "path", "context", "rand", "sql", "draw", "httptest",
}

// Mutation is the outcome of a mutator: new sources for the whole package plus a label.
type Mutation struct {
	Srcs  []core.Source
	Label string
}

// Mutator rewrites a loaded, well-typed program. ok=false means "no applicable site".
type Mutator struct {
	Name string
	Fn   func(t *rapid.T, p *core.Program) ([]Edit, bool)
}

// Mutators is the G2 menu.
var Mutators = []Mutator{
	{"parens", mutParens},
	{"rename-to-builtin", mutRename(BuiltinNames)},
	{"rename-to-stdpkg", mutRename(StdPkgNames)},
	{"bare-return", mutBareReturn},
	{"forward-multi", mutForward},
	{"zoo", mutZoo},
	{"respell-literal", mutRespell},
	{"shadow-builtin-generic", mutShadowBuiltin},
	{"fake-import", mutFakeImport},
	{"blank-ident", mutBlank},
	{"local-shadow", mutLocalShadow},
	{"file-header", mutFileHeader},
}

// MutatorByName finds a mutator.
func MutatorByName(n string) *Mutator {
	for i := range Mutators {
		if Mutators[i].Name == n {
			return &Mutators[i]
		}
	}
	return nil
}

func pick[T any](t *rapid.T, label string, xs []T) T {
	return xs[rapid.IntRange(0, len(xs)-1).Draw(t, label)]
}

// ---------------------------------------------------------------------------------------------
// parens: wrap 1..3 expressions (values or types) in parentheses.

type site struct {
	file int
	node ast.Node
}

func exprSites(p *core.Program, want func(fi int, e ast.Expr, parent ast.Node) bool) []site {
	var out []site
	for fi, f := range p.Files {
		var stack []ast.Node
		ast.Inspect(f, func(n ast.Node) bool {
			if n == nil {
				stack = stack[:len(stack)-1]
				return true
			}
			var parent ast.Node
			if len(stack) > 0 {
				parent = stack[len(stack)-1]
			}
			stack = append(stack, n)
			if e, ok := n.(ast.Expr); ok && want(fi, e, parent) {
				out = append(out, site{fi, n})
			}
			return true
		})
	}
	return out
}

func mutParens(t *rapid.T, p *core.Program) ([]Edit, bool) {
	sites := exprSites(p, func(fi int, e ast.Expr, parent ast.Node) bool {
		tv, ok := p.Info.Types[e]
		if !ok || !(tv.IsValue() || tv.IsType() || tv.IsBuiltin()) {
			return false
		}
		switch par := parent.(type) {
		case *ast.AssignStmt:
			if par.Tok == token.DEFINE {
				for _, l := range par.Lhs {
					if l == e {
						return false
					}
				}
			}
		case *ast.RangeStmt:
			if par.Tok == token.DEFINE && (par.Key == e || par.Value == e) {
				return false
			}
		case *ast.SelectorExpr:
			if par.Sel == e {
				return false
			}
		case *ast.KeyValueExpr:
			if par.Key == e {
				if _, isIdent := e.(*ast.Ident); isIdent {
					return false
				}
			}
		case *ast.Field:
			// embedded fields cannot be parenthesised
			if len(par.Names) == 0 && par.Type == e {
				return false
			}
		case *ast.CompositeLit:
			if par.Type == e {
				return false
			}
		}
		return true
	})
	if len(sites) == 0 {
		return nil, false
	}
	n := rapid.IntRange(1, 3).Draw(t, "nparens")
	var edits []Edit
	seen := map[int]bool{}
	for i := 0; i < n; i++ {
		k := rapid.IntRange(0, len(sites)-1).Draw(t, "site")
		if seen[k] {
			continue
		}
		seen[k] = true
		s := sites[k]
		edits = append(edits,
			Edit{s.file, off(p, s.node.Pos()), off(p, s.node.Pos()), "("},
			Edit{s.file, off(p, s.node.End()), off(p, s.node.End()), ")"})
	}
	return edits, true
}

// ---------------------------------------------------------------------------------------------
// rename: give a user-declared object the name of a builtin / std package.

func mutRename(names []string) func(t *rapid.T, p *core.Program) ([]Edit, bool) {
	return func(t *rapid.T, p *core.Program) ([]Edit, bool) {
		type cand struct {
			obj types.Object
		}
		var cands []types.Object
		seen := map[types.Object]bool{}
		var ids []*ast.Ident
		for id := range p.Info.Defs {
			ids = append(ids, id)
		}
		sort.Slice(ids, func(i, j int) bool { return ids[i].Pos() < ids[j].Pos() })
		for _, id := range ids {
			obj := p.Info.Defs[id]
			if obj == nil || id.Name == "_" || id.Name == "main" || id.Name == "init" || seen[obj] {
				continue
			}
			switch o := obj.(type) {
			case *types.Var:
				if o.Embedded() {
					continue
				}
			case *types.Func, *types.TypeName, *types.Const:
			default:
				continue
			}
			seen[obj] = true
			cands = append(cands, obj)
		}
		if len(cands) == 0 {
			return nil, false
		}
		obj := pick(t, "obj", cands)
		newName := pick(t, "newname", names)
		if obj.Name() == newName {
			return nil, false
		}
		var edits []Edit
		add := func(id *ast.Ident) {
			fi := p.FileIndex(id.Pos())
			if fi < 0 {
				return
			}
			edits = append(edits, Edit{fi, off(p, id.Pos()), off(p, id.End()), newName})
		}
		for id, o := range p.Info.Defs {
			if o == obj {
				add(id)
			}
		}
		for id, o := range p.Info.Uses {
			if o == obj {
				add(id)
			}
		}
		// struct-literal keys refer to fields through Uses as well; nothing else to do.
		sort.Slice(edits, func(i, j int) bool {
			if edits[i].File != edits[j].File {
				return edits[i].File < edits[j].File
			}
			return edits[i].From < edits[j].From
		})
		// dedupe (an ident may be both in Defs and Uses for type switches)
		var out []Edit
		for i, e := range edits {
			if i > 0 && e == edits[i-1] {
				continue
			}
			out = append(out, e)
		}
		return out, len(out) > 0
	}
}

// ---------------------------------------------------------------------------------------------
// bare-return: name the results of a function and turn every `return e...` into
// `r0, r1 = e...; return`.

func mutBareReturn(t *rapid.T, p *core.Program) ([]Edit, bool) {
	type fn struct {
		file int
		typ  *ast.FuncType
		body *ast.BlockStmt
	}
	var fns []fn
	for fi, f := range p.Files {
		ast.Inspect(f, func(n ast.Node) bool {
			var ft *ast.FuncType
			var body *ast.BlockStmt
			switch d := n.(type) {
			case *ast.FuncDecl:
				ft, body = d.Type, d.Body
			case *ast.FuncLit:
				ft, body = d.Type, d.Body
			}
			if ft == nil || body == nil || ft.Results == nil || len(ft.Results.List) == 0 {
				return true
			}
			for _, r := range ft.Results.List {
				if len(r.Names) != 0 {
					return true
				}
			}
			fns = append(fns, fn{fi, ft, body})
			return true
		})
	}
	if len(fns) == 0 {
		return nil, false
	}
	f := pick(t, "fn", fns)
	var edits []Edit
	var names []string
	hadParens := f.typ.Results.Opening.IsValid()
	for i, r := range f.typ.Results.List {
		nm := fmt.Sprintf("vr%d", i)
		names = append(names, nm)
		edits = append(edits, Edit{f.file, off(p, r.Type.Pos()), off(p, r.Type.Pos()), nm + " "})
	}
	if !hadParens {
		edits = append(edits,
			Edit{f.file, off(p, f.typ.Results.Pos()), off(p, f.typ.Results.Pos()), "("},
			Edit{f.file, off(p, f.typ.Results.End()), off(p, f.typ.Results.End()), ")"})
	}
	// own return statements (not those of nested function literals)
	var visit func(n ast.Node) bool
	visit = func(n ast.Node) bool {
		switch s := n.(type) {
		case *ast.FuncLit:
			return false
		case *ast.ReturnStmt:
			if len(s.Results) == 0 {
				return true
			}
			lhs := strings.Join(names, ", ")
			rhs := string(p.Srcs[f.file][off(p, s.Results[0].Pos()):off(p, s.Results[len(s.Results)-1].End())])
			edits = append(edits, Edit{f.file, off(p, s.Pos()), off(p, s.End()), lhs + " = " + rhs + "; return"})
		}
		return true
	}
	for _, st := range f.body.List {
		ast.Inspect(st, visit)
	}
	return edits, true
}

// ---------------------------------------------------------------------------------------------
// forward-multi: f(a, b) -> f(func() (T1, T2) { return a, b }())

func qualifierFor(p *core.Program, fi int) (types.Qualifier, func() bool) {
	local := map[string]string{} // pkg path -> local name
	for _, is := range p.Files[fi].Imports {
		path, err := strconv.Unquote(is.Path.Value)
		if err != nil {
			continue
		}
		var pn *types.PkgName
		if is.Name != nil {
			pn, _ = p.Info.Defs[is.Name].(*types.PkgName)
		} else {
			pn, _ = p.Info.Implicits[is].(*types.PkgName)
		}
		if pn == nil {
			continue
		}
		name := pn.Name()
		if name == "_" || name == "." {
			continue
		}
		local[path] = name
	}
	bad := false
	q := func(pkg *types.Package) string {
		if pkg == p.Pkg {
			return ""
		}
		if n, ok := local[pkg.Path()]; ok {
			return n
		}
		bad = true
		return pkg.Name()
	}
	return q, func() bool { return bad }
}

func mutForward(t *rapid.T, p *core.Program) ([]Edit, bool) {
	type cs struct {
		file int
		call *ast.CallExpr
		sig  *types.Signature
	}
	var calls []cs
	for fi, f := range p.Files {
		ast.Inspect(f, func(n ast.Node) bool {
			call, ok := n.(*ast.CallExpr)
			if !ok || len(call.Args) < 2 || call.Ellipsis.IsValid() {
				return true
			}
			tv, ok := p.Info.Types[call.Fun]
			if !ok || !tv.IsValue() {
				return true
			}
			sig, ok := tv.Type.Underlying().(*types.Signature)
			if !ok || sig.TypeParams() != nil {
				return true
			}
			if !sig.Variadic() && sig.Params().Len() != len(call.Args) {
				return true
			}
			if sig.Variadic() && len(call.Args) < sig.Params().Len()-1 {
				return true
			}
			calls = append(calls, cs{fi, call, sig})
			return true
		})
	}
	if len(calls) == 0 {
		return nil, false
	}
	c := pick(t, "call", calls)
	q, bad := qualifierFor(p, c.file)
	var tys, args []string
	for i, a := range c.call.Args {
		var pt types.Type
		if c.sig.Variadic() && i >= c.sig.Params().Len()-1 {
			pt = c.sig.Params().At(c.sig.Params().Len() - 1).Type().(*types.Slice).Elem()
		} else {
			pt = c.sig.Params().At(i).Type()
		}
		if containsTypeParam(pt) {
			return nil, false
		}
		tys = append(tys, types.TypeString(pt, q))
		args = append(args, text(p, c.file, a))
	}
	if bad() {
		return nil, false
	}
	repl := "func() (" + strings.Join(tys, ", ") + ") { return " + strings.Join(args, ", ") + " }()"
	return []Edit{{c.file, off(p, c.call.Args[0].Pos()), off(p, c.call.Args[len(c.call.Args)-1].End()), repl}}, true
}

func containsTypeParam(t types.Type) bool {
	found := false
	var walk func(t types.Type, depth int)
	walk = func(t types.Type, depth int) {
		if found || depth > 6 {
			return
		}
		switch u := t.(type) {
		case *types.TypeParam:
			found = true
		case *types.Pointer:
			walk(u.Elem(), depth+1)
		case *types.Slice:
			walk(u.Elem(), depth+1)
		case *types.Array:
			walk(u.Elem(), depth+1)
		case *types.Map:
			walk(u.Key(), depth+1)
			walk(u.Elem(), depth+1)
		case *types.Chan:
			walk(u.Elem(), depth+1)
		case *types.Signature:
			for i := 0; i < u.Params().Len(); i++ {
				walk(u.Params().At(i).Type(), depth+1)
			}
			for i := 0; i < u.Results().Len(); i++ {
				walk(u.Results().At(i).Type(), depth+1)
			}
		case *types.Named:
			if u.TypeArgs() != nil {
				for i := 0; i < u.TypeArgs().Len(); i++ {
					walk(u.TypeArgs().At(i), depth+1)
				}
			}
		}
	}
	walk(t, 0)
	return found
}

// ---------------------------------------------------------------------------------------------
// zoo: append legal-but-unusual declarations.

// Zoo entries use the suffix §, replaced by a unique number.
var Zoo = []string{
	"func vz§() { switch {} }",
	"func vz§() { select { default: } }",
	"func vz§() { for false {} }",
	"var ()",
	"const ()",
	"type ()",
	"func vz§()",
	"func vz§() { {} ; ; }",
	"func vz§() { if true {} else {} }",
	"func vz§() { L: for { break L } }",
	"func vz§() { func() {}() }",
	"func vz§() { defer func() {}() ; go func() {}() }",
	"func vz§() { var _ = 0; _ = 0; _, _ = 0, 0 }",
	"func vz§(_ int, _ string) (_ int) { return }",
	"func vz§(int, string) {}",
	"func vz§() (a, b int) { return }",
	"func vz§() (int, error) { return 0, nil }\nfunc vy§() (int, error) { return vz§() }",
	"type vT§ struct{ *vT§ }\nfunc (t vT§) vm() {}",
	"type vT§ struct{ f func() int; g func(int, ...string) (int, error) }\nfunc vz§(x vT§) (int, int) { return x.f(), x.f() }",
	"type vT§ struct{ n int }\nfunc (t (vT§)) vm() int { return t.n }\nfunc (t *(vT§)) vp() int { return t.n }",
	"type vT§ struct{ n int }\nfunc (vT§) vm() {}\nfunc (*vT§) vp() {}\nfunc (_ vT§) vq() {}",
	"type vA§ struct{ b *vB§ }\ntype vB§ struct{ a *vA§ }",
	"type vI§ interface{ vI§x }\ntype vI§x interface{ m() }",
	"type vG§[T any] struct{ x T }\nfunc (g vG§[T]) get() T { return g.x }\nfunc (g *vG§[_]) ptr() {}",
	"func vz§[T any, U comparable](x T, y U) (T, U) { return x, y }\nvar _, _ = vz§(1, \"a\")",
	"type vN§ interface{ ~int | ~float64 }\nfunc vz§[T vN§](xs []T) (s T) { for _, x := range xs { s += x }; return }",
	"type vG§[T any] []T\nfunc vz§[T any](x vG§[T], big [1000]T, st struct{ a T; b [64]T }) { for _, e := range big { _ = e }; _ = st }",
	"var vz§ = func() int { return 0 }()",
	"var vz§, vy§ = func() (int, int) { return 0, 0 }()",
	"func vz§() { var x interface{}; switch x.(type) {} ; switch y := x.(type) { default: _ = y } }",
	"func vz§() { var x interface{}; switch x.(type) { case nil: case interface{}: case error: } }",
	"func vz§() { var c chan int; select { case <-c: case c <- 0: case x := <-c: _ = x; case x, ok := <-c: _, _ = x, ok } }",
	"func vz§() { for range []int{} {} ; for _ = range []int{} {} ; for _, _ = range []int{} {} }",
	"func vz§() { for i := range 3 { _ = i } ; for range 3 {} }",
	"func vz§() { goto L; L: }",
	"func vz§() { x := 0; x, y := 1, 2; _, _ = x, y }",
	"func vz§() { var a [0]int; var s struct{}; _, _ = a, s; _ = [...]int{}; _ = []struct{}{{}} ; _ = map[string]struct{}{\"\": {}} }",
	"func vz§() { _ = func(...int) {} ; _ = func(xs ...int) int { return len(xs) } }",
	"func vz§() int { panic(0) }",
	"func vz§() { if x := 0; x > 0 {} else if y := x; y > 0 {} else {} }",
	"func vz§() { switch x := 0; x {} ; switch x := 0; {} }",
	"func vz§() { var f func(); if f != nil { f() }; (f)(); (func() {})() }",
	"func vz§() { type T struct{ T *T }; type U = T; var _ U }",
	"func vz§() { var e error; _ = e.(interface{ Error() string }).Error }",
	"func vz§() (r int) { defer func() { r++ }(); return r }",
	"func vz§() { x := []int{}; _ = x[:]; _ = x[:][:]; _ = x[0:len(x):cap(x)] }",
	"func vz§() { var p **int; _ = **p; var pp *[]int; _ = (*pp)[0]; var ps *struct{ a int }; _ = (*ps).a }",
	"func vz§(a, b int, c ...int) {}\nfunc vy§() (int, int) { return 0, 0 }\nfunc vx§() { vz§(vy§()) }",
	"func vz§(a, b int) bool { return a < b }\nfunc vx§() { _ = vz§(1, 2) == vz§(1, 2) }",
	"type vT§ int\nconst ( vA§ vT§ = iota; vB§; _; vC§ )",
	"var vz§ = [...]string{2: \"a\", 0: \"b\"}",
	"func vz§() { var m map[string]int; m[\"a\"]++; m[\"a\"] += 1; delete(m, \"a\"); for k := range m { delete(m, k) } }",
	"func vz§() { s := \"\"; s += s; s = s + s; _ = s[0]; _ = s[len(s)-1]; _ = s == \"\"; _ = len(s) == 0 }",
	"func vz§() { var x complex128; _ = real(x); _ = imag(x); _ = complex(1, 2); _ = *new(complex128) }",
	"func vz§() { var u uintptr; _ = u; var a any; _ = a; var r rune; var b byte; _, _ = r, b }",
	"func vz§() { x := struct{ a, b int }{1, 2}; y := &x; _ = y.a; _ = (*y).b; _ = &struct{}{} }",
	"func vz§() { var x int; _ = x == x; _ = x != x; _ = x - x; _ = x &^ x; var f float64; _ = f != f }",
	"func vz§() { var x, y int; x = x + y; y = y * 2; x = x; x, y = y, x }",
	"//go:noinline\nfunc vz§() {}",
	"/* block */ func vz§() {} // trailing",
	"//\nfunc vz§() {}",
	"//nolint\nfunc vz§() {}",
	"// TODO\nfunc vz§() {}",
	"// Deprecated: x\nfunc vz§() {}",
	"// vz§ ...\nfunc vz§() {}",
}

func mutZoo(t *rapid.T, p *core.Program) ([]Edit, bool) {
	fi := rapid.IntRange(0, len(p.Files)-1).Draw(t, "file")
	n := rapid.IntRange(1, 6).Draw(t, "nzoo")
	var sb strings.Builder
	sb.WriteString("\n")
	base := rapid.IntRange(100, 900).Draw(t, "zoobase")
	for i := 0; i < n; i++ {
		z := pick(t, "zoo", Zoo)
		sb.WriteString(strings.ReplaceAll(z, "§", strconv.Itoa(base+i)))
		sb.WriteString("\n\n")
	}
	end := len(p.Srcs[fi])
	return []Edit{{fi, end, end, sb.String()}}, true
}

// ---------------------------------------------------------------------------------------------
// respell-literal

func mutRespell(t *rapid.T, p *core.Program) ([]Edit, bool) {
	var lits []site
	for fi, f := range p.Files {
		ast.Inspect(f, func(n ast.Node) bool {
			if _, ok := n.(*ast.ImportSpec); ok {
				return false
			}
			if bl, ok := n.(*ast.BasicLit); ok && (bl.Kind == token.INT || bl.Kind == token.FLOAT || bl.Kind == token.CHAR) {
				if tv, ok := p.Info.Types[bl]; ok && tv.Value != nil {
					lits = append(lits, site{fi, bl})
				}
			}
			return true
		})
	}
	if len(lits) == 0 {
		return nil, false
	}
	s := pick(t, "lit", lits)
	bl := s.node.(*ast.BasicLit)
	v := p.Info.Types[bl].Value
	var repl string
	switch bl.Kind {
	case token.INT, token.CHAR:
		n, ok := constant.Int64Val(constant.ToInt(v))
		if !ok || n < 0 {
			return nil, false
		}
		forms := []string{
			fmt.Sprintf("0x%x", n), fmt.Sprintf("0X%X", n), fmt.Sprintf("0o%o", n), fmt.Sprintf("0O%o", n),
			fmt.Sprintf("0%o", n), fmt.Sprintf("0b%b", n), fmt.Sprintf("%d", n),
		}
		if n >= 10 {
			d := fmt.Sprintf("%d", n)
			forms = append(forms, d[:1]+"_"+d[1:])
		}
		if n >= 32 && n < 127 && n != '\'' && n != '\\' {
			forms = append(forms, fmt.Sprintf("'%c'", rune(n)))
		}
		repl = pick(t, "form", forms)
	case token.FLOAT:
		fv, _ := constant.Float64Val(v)
		forms := []string{
			strconv.FormatFloat(fv, 'e', -1, 64), strconv.FormatFloat(fv, 'f', -1, 64) + "e0",
			strconv.FormatFloat(fv, 'x', -1, 64),
		}
		repl = pick(t, "form", forms)
	}
	if repl == bl.Value {
		return nil, false
	}
	return []Edit{{s.file, off(p, bl.Pos()), off(p, bl.End()), repl}}, true
}

// ---------------------------------------------------------------------------------------------
// shadow-builtin-generic: add a package-level generic namesake of a builtin whose signature
// accepts the calls the file already contains, so that every such call now resolves to a
// user-defined function.

var GenericShadows = map[string]string{
	"len":     "func len[T any](x T) int { return -1 }",
	"cap":     "func cap[T any](x T) int { return -1 }",
	"append":  "func append[T any](s []T, v ...T) []T { return s }",
	"copy":    "func copy[T any](a, b T) int { return 0 }",
	"panic":   "func panic(v interface{}) {}",
	"print":   "func print(args ...interface{}) {}",
	"println": "func println(args ...interface{}) {}",
	"recover": "func recover() interface{} { return nil }",
	"delete":  "func delete[M ~map[K]V, K comparable, V any](m M, k K) {}",
	"close":   "func close[T any](c T) {}",
	"min":     "func min[T any](x T, y ...T) T { return x }",
	"max":     "func max[T any](x T, y ...T) T { return x }",
	"real":    "func real[T any](x T) float64 { return 0 }",
	"imag":    "func imag[T any](x T) float64 { return 0 }",
	"clear":   "func clear[T any](x T) {}",
}

// GenericShadowNames in stable order.
var GenericShadowNames = func() []string {
	var out []string
	for k := range GenericShadows {
		out = append(out, k)
	}
	sort.Strings(out)
	return out
}()

func usesBuiltin(p *core.Program, name string) bool {
	for id, obj := range p.Info.Uses {
		if id.Name == name {
			if _, ok := obj.(*types.Builtin); ok {
				return true
			}
		}
	}
	return false
}

func mutShadowBuiltin(t *rapid.T, p *core.Program) ([]Edit, bool) {
	var used []string
	for _, n := range GenericShadowNames {
		if usesBuiltin(p, n) && p.Pkg.Scope().Lookup(n) == nil {
			used = append(used, n)
		}
	}
	if len(used) == 0 {
		return nil, false
	}
	name := pick(t, "builtin", used)
	fi := rapid.IntRange(0, len(p.Files)-1).Draw(t, "file")
	end := len(p.Srcs[fi])
	return []Edit{{fi, end, end, "\n" + GenericShadows[name] + "\n"}}, true
}

// ---------------------------------------------------------------------------------------------
// fake-import: import a user package with the same API under the std package's name.

func mutFakeImport(t *rapid.T, p *core.Program) ([]Edit, bool) {
	type imp struct {
		file int
		spec *ast.ImportSpec
		path string
	}
	var imps []imp
	for fi, f := range p.Files {
		for _, is := range f.Imports {
			path, err := strconv.Unquote(is.Path.Value)
			if err != nil || !HasFake(path) {
				continue
			}
			if is.Name != nil && (is.Name.Name == "_" || is.Name.Name == ".") {
				continue
			}
			imps = append(imps, imp{fi, is, path})
		}
	}
	if len(imps) == 0 {
		return nil, false
	}
	im := pick(t, "import", imps)
	var edits []Edit
	// a package imported in several files of the package: replace in all of them, otherwise
	// values of aliased types still flow, which is fine too; we replace only the chosen file
	// so that mixed files exist as well.
	name := ""
	if im.spec.Name == nil {
		name = FakeLocalName(im.path) + " "
	}
	edits = append(edits, Edit{im.file, off(p, im.spec.Path.Pos()), off(p, im.spec.Path.End()), name + strconv.Quote(FakePath(im.path))})
	return edits, true
}

// ---------------------------------------------------------------------------------------------
// blank-ident: rename an unused-tolerant parameter to _ or drop parameter names.

func mutBlank(t *rapid.T, p *core.Program) ([]Edit, bool) {
	var cands []*ast.Ident
	for id, obj := range p.Info.Defs {
		v, ok := obj.(*types.Var)
		if !ok || v.IsField() || id.Name == "_" {
			continue
		}
		// parameters / results / receivers only: their scope is a function scope
		used := false
		for _, o := range p.Info.Uses {
			if o == obj {
				used = true
				break
			}
		}
		if !used && v.Parent() != nil && v.Parent() != p.Pkg.Scope() {
			cands = append(cands, id)
		}
	}
	if len(cands) == 0 {
		return nil, false
	}
	sort.Slice(cands, func(i, j int) bool { return cands[i].Pos() < cands[j].Pos() })
	id := pick(t, "ident", cands)
	fi := p.FileIndex(id.Pos())
	if fi < 0 {
		return nil, false
	}
	return []Edit{{fi, off(p, id.Pos()), off(p, id.End()), "_"}}, true
}

// ---------------------------------------------------------------------------------------------
// local-shadow: at the top of a function body declare a local namesake of a builtin / std
// package the body does not use (so the body still type-checks) — or, for generic-shadowable
// builtins it does use, a compatible local closure.

func mutLocalShadow(t *rapid.T, p *core.Program) ([]Edit, bool) {
	type fb struct {
		file int
		body *ast.BlockStmt
	}
	var bodies []fb
	for fi, f := range p.Files {
		for _, d := range f.Decls {
			if fd, ok := d.(*ast.FuncDecl); ok && fd.Body != nil {
				bodies = append(bodies, fb{fi, fd.Body})
			}
		}
	}
	if len(bodies) == 0 {
		return nil, false
	}
	b := pick(t, "body", bodies)
	used := map[string]bool{}
	ast.Inspect(b.body, func(n ast.Node) bool {
		if id, ok := n.(*ast.Ident); ok {
			used[id.Name] = true
		}
		return true
	})
	var decls []string
	for _, n := range append(append([]string{}, BuiltinNames...), StdPkgNames...) {
		if !used[n] {
			decls = append(decls, "var "+n+" = 0; _ = "+n+";", n+" := func() {}; _ = "+n+";", "type "+n+" struct{}; var _ "+n+";")
		}
	}
	locals := map[string]string{
		"len":    "len := func(x []int) int { return -1 }; _ = len;",
		"append": "append := func(s []int, v ...int) []int { return s }; _ = append;",
		"cap":    "cap := func(x []int) int { return -1 }; _ = cap;",
		"panic":  "panic := func(v interface{}) {}; _ = panic;",
		"copy":   "copy := func(a, b []byte) int { return 0 }; _ = copy;",
	}
	for n, d := range locals {
		if used[n] {
			decls = append(decls, d)
		}
	}
	sort.Strings(decls)
	if len(decls) == 0 {
		return nil, false
	}
	d := pick(t, "decl", decls)
	at := off(p, b.body.Lbrace) + 1
	return []Edit{{b.file, at, at, " " + d + " "}}, true
}

// file-header: text before the package clause of one file — build constraints (which also set the
// file's language version), generated-code markers, licence blocks, directives.

var fileHeaders = []string{
	"//go:build go1.12\n\n", "//go:build go1.16\n\n", "//go:build go1.18\n\n", "//go:build go1.21\n\n", "//go:build go1.22 && !ignore\n\n",
	"//go:build !ignore\n// +build !ignore\n\n", "// +build !ignore\n\n",
	"// Code generated by verif. DO NOT EDIT.\n\n", "// Copyright 2024 The Authors. All rights reserved.\n// Use of this source code is governed by a licence.\n\n",
	"/* block header */\n\n", "//go:generate echo x\n\n", "//nolint:all\n\n", "// Package p is documented here.\n",
	"//go:build go1.18\n\n// Package p has a constraint and a doc comment.\n",
}

func mutFileHeader(t *rapid.T, p *core.Program) ([]Edit, bool) {
	fi := rapid.IntRange(0, len(p.Files)-1).Draw(t, "headerFile")
	if strings.HasPrefix(string(p.Srcs[fi]), "//go:build") || strings.HasPrefix(string(p.Srcs[fi]), "// +build") {
		return nil, false
	}
	return []Edit{{fi, 0, 0, pick(t, "header", fileHeaders)}}, true
}
