package gen

import (
	"fmt"
	"go/token"
	"os"
	"path/filepath"
	"sort"
	"strings"

	"pgregory.net/rapid"

	"github.com/go-critic/go-critic/linter"

	"verif/harness/core"
)

// ProgCase is the serialisable form of a generated program case.
type ProgCase struct {
	Origin string            `json:"origin"`
	Muts   []string          `json:"mutations,omitempty"`
	Files  []core.Source     `json:"files"`
	Params map[string]string `json:"params,omitempty"` // "checker.param" -> value as text
	GoVer  string            `json:"go_version,omitempty"`
}

// Key identifies the case by content.
func (c *ProgCase) Key() string {
	var sb strings.Builder
	for _, f := range c.Files {
		sb.WriteString(f.Name)
		sb.WriteByte(0)
		sb.WriteString(f.Text)
		sb.WriteByte(0)
	}
	keys := make([]string, 0, len(c.Params))
	for k := range c.Params {
		keys = append(keys, k)
	}
	sort.Strings(keys)
	for _, k := range keys {
		sb.WriteString(k + "=" + c.Params[k] + ";")
	}
	sb.WriteString(c.GoVer)
	return sb.String()
}

// Env is the per-process environment programs are loaded in.
type Env struct {
	Fset *token.FileSet
	Work string
	n    int
	live []*core.Program
}

// NewEnv creates an environment with its own file set and scratch dir.
func NewEnv() *Env {
	EnsureFakes()
	core.RegisterFakePackage(SharedPkgPath, SharedPkgSource)
	return &Env{Fset: token.NewFileSet(), Work: core.WorkDir()}
}

// Load materialises and loads sources as a new package.
func (e *Env) Load(srcs []core.Source) *core.Program {
	e.n++
	dir := filepath.Join(e.Work, fmt.Sprintf("p%d", e.n))
	p := core.Load(e.Fset, dir, fmt.Sprintf("verif.test/p%d", e.n), srcs, core.LoadOpts{})
	e.live = append(e.live, p)
	return p
}

// LoadFixed loads sources after a suggested edit: unused imports are tolerated.
func (e *Env) LoadFixed(srcs []core.Source) *core.Program {
	e.n++
	dir := filepath.Join(e.Work, fmt.Sprintf("p%d", e.n))
	p := core.Load(e.Fset, dir, fmt.Sprintf("verif.test/p%d", e.n), srcs, core.LoadOpts{AllowUnusedImports: true})
	e.live = append(e.live, p)
	return p
}

// LoadTolerant is Load in the error-tolerant mode (C19).
func (e *Env) LoadTolerant(srcs []core.Source) *core.Program {
	e.n++
	dir := filepath.Join(e.Work, fmt.Sprintf("p%d", e.n))
	p := core.Load(e.Fset, dir, fmt.Sprintf("verif.test/p%d", e.n), srcs, core.LoadOpts{Tolerant: true})
	e.live = append(e.live, p)
	return p
}

// Release removes every program loaded since the last Release from disk and file set.
func (e *Env) Release() {
	for _, p := range e.live {
		for _, f := range p.Files {
			if tf := e.Fset.File(f.Pos()); tf != nil {
				e.Fset.RemoveFile(tf)
			}
		}
		if strings.HasPrefix(p.Dir, e.Work) {
			os.RemoveAll(p.Dir)
		}
	}
	e.live = e.live[:0]
}

// corpus programs are loaded once per Env and never released.
type corpusEntry struct {
	cp core.CorpusPkg
	p  *core.Program
}

var corpusCache = map[*Env][]corpusEntry{}

// CorpusPrograms returns the well-typed corpus packages loaded into e's file set.
func (e *Env) CorpusPrograms() []corpusEntry {
	if c, ok := corpusCache[e]; ok {
		return c
	}
	var out []corpusEntry
	for _, cp := range core.Corpus() {
		p := core.LoadCorpusPkg(e.Fset, cp)
		if p.OK() {
			out = append(out, corpusEntry{cp, p})
		}
	}
	corpusCache[e] = out
	return out
}

// Name / Program accessors.
func (c corpusEntry) Name() string           { return c.cp.Name }
func (c corpusEntry) Program() *core.Program { return c.p }

// DrawOpts biases DrawProgram.
type DrawOpts struct {
	MaxMuts   int      // maximum number of chained mutations (default 3)
	Mutators  []string // restrict to these mutators (nil = all)
	OnlyPkgs  []string // restrict to these corpus packages (nil = all)
	MinMuts   int
	NoKernels bool
	// NoSplit keeps kernel programs in one file (default: one in four is split into 2-3 files).
	NoSplit bool
	// FreshCorpus re-loads a chosen corpus package instead of using the per-process cached
	// (shared, hence corruptible by a mutating checker) syntax tree.
	FreshCorpus bool
}

// DrawProgram draws a well-typed program: a corpus package or generated kernel file, with
// 0..MaxMuts chained G2 mutations (each re-validated by the type checker; a mutation that
// breaks typing is dropped and counted through onReject).
func DrawProgram(t *rapid.T, e *Env, o DrawOpts, onReject func(label, why string)) (*core.Program, *ProgCase) {
	maxM := o.MaxMuts
	if maxM == 0 {
		maxM = 3
	}
	var cur *core.Program
	pc := &ProgCase{}
	useKernels := !o.NoKernels && len(o.OnlyPkgs) == 0 && rapid.IntRange(0, 99).Draw(t, "kernelOrCorpus") < 45
	if useKernels {
		srcs := DrawKernelFile(t)
		cur = e.Load(srcs)
		pc.Origin = "kernels"
		if !cur.OK() {
			if onReject != nil {
				onReject("kernels", cur.ErrSummary()+"\n"+srcs[0].Text)
			}
			// fall back to a corpus package
			cur = nil
		}
	}
	if cur == nil {
		progs := e.CorpusPrograms()
		if len(o.OnlyPkgs) > 0 {
			var sel []corpusEntry
			for _, c := range progs {
				for _, n := range o.OnlyPkgs {
					if c.Name() == n {
						sel = append(sel, c)
					}
				}
			}
			progs = sel
		}
		ce := progs[rapid.IntRange(0, len(progs)-1).Draw(t, "corpusPkg")]
		cur = ce.p
		if o.FreshCorpus {
			cur = e.Load(Sources(ce.p))
		}
		pc.Origin = "corpus:" + ce.Name()
	}
	if pc.Origin == "kernels" && !o.NoSplit && len(cur.Files) == 1 && rapid.IntRange(0, 3).Draw(t, "splitFiles") == 0 {
		if next, ok := splitFiles(t, e, cur); ok {
			cur = next
			pc.Muts = append(pc.Muts, "split-files")
		} else if onReject != nil {
			onReject("split-files", "the split package does not type-check")
		}
	}
	muts := Mutators
	if len(o.Mutators) > 0 {
		muts = nil
		for _, n := range o.Mutators {
			if m := MutatorByName(n); m != nil {
				muts = append(muts, *m)
			}
		}
	}
	n := rapid.IntRange(o.MinMuts, maxM).Draw(t, "nmut")
	for i := 0; i < n; i++ {
		m := muts[rapid.IntRange(0, len(muts)-1).Draw(t, "mutator")]
		edits, ok := m.Fn(t, cur)
		if !ok {
			continue
		}
		srcs, ok := Apply(cur, edits)
		if !ok {
			continue
		}
		next := e.Load(srcs)
		if !next.OK() {
			if onReject != nil {
				onReject(m.Name, next.ErrSummary())
			}
			continue
		}
		cur = next
		pc.Muts = append(pc.Muts, m.Name)
	}
	pc.Files = Sources(cur)
	return cur, pc
}

// ---------------------------------------------------------------------------------------------
// parameters (G6, in-process part)

// ParamValues draws an override for every registered parameter of the hand-written checkers
// with some probability. Values are rendered as text; ApplyParams parses them back.
func DrawParams(t *rapid.T) map[string]string {
	out := map[string]string{}
	for _, in := range core.Registry() {
		if in.Name == "ruleguard" || len(in.Params) == 0 {
			continue
		}
		names := make([]string, 0, len(in.Params))
		for n := range in.Params {
			names = append(names, n)
		}
		sort.Strings(names)
		for _, n := range names {
			if rapid.IntRange(0, 2).Draw(t, "setparam") != 0 {
				continue
			}
			key := in.Name + "." + n
			switch in.Params[n].Value.(type) {
			case int:
				v := pick(t, "intval", []int{-1000000, -1, 0, 1, 2, 3, 5, 8, 16, 64, 80, 128, 512, 1 << 20, 1 << 40})
				out[key] = fmt.Sprint(v)
			case bool:
				out[key] = fmt.Sprint(rapid.Bool().Draw(t, "boolval"))
			}
		}
	}
	return out
}

// WithParams sets the overrides on the registry's info objects, runs fn, and restores the
// previous values (parameters are registry-global state; every case restores them).
func WithParams(params map[string]string, fn func()) {
	type saved struct {
		p *linter.CheckerParam
		v interface{}
	}
	var undo []saved
	for key, val := range params {
		i := strings.IndexByte(key, '.')
		if i < 0 {
			continue
		}
		in := core.InfoByName(key[:i])
		if in == nil {
			continue
		}
		p, ok := in.Params[key[i+1:]]
		if !ok {
			continue
		}
		undo = append(undo, saved{p, p.Value})
		switch p.Value.(type) {
		case int:
			var n int
			fmt.Sscan(val, &n)
			p.Value = n
		case bool:
			p.Value = val == "true"
		case string:
			p.Value = val
		}
	}
	defer func() {
		for _, u := range undo {
			u.p.Value = u.v
		}
	}()
	fn()
}

// ParamCheckers lists the checkers that have at least one overridden parameter.
func ParamCheckers(params map[string]string) []*linter.CheckerInfo {
	seen := map[string]bool{}
	var out []*linter.CheckerInfo
	keys := make([]string, 0, len(params))
	for k := range params {
		keys = append(keys, k)
	}
	sort.Strings(keys)
	for _, k := range keys {
		n := k[:strings.IndexByte(k, '.')]
		if !seen[n] {
			seen[n] = true
			if in := core.InfoByName(n); in != nil {
				out = append(out, in)
			}
		}
	}
	return out
}

// splitFiles distributes the top-level declarations of a single-file kernel program over 2-3
// files of the same package (each with exactly the imports it needs): declarations and their
// uses, same-named local types, constants and the calls that take them end up in different files,
// which is what per-file state, caches that outlive a file and positions taken from objects
// instead of syntax have to cope with.
func splitFiles(t *rapid.T, e *Env, p *core.Program) (*core.Program, bool) {
	chunks, ok := SplitChunks(p.Fset, p.Files[0], p.Srcs[0])
	if !ok || len(chunks) < 3 {
		return nil, false
	}
	n := rapid.IntRange(2, 3).Draw(t, "nsplit")
	bodies := make([]strings.Builder, n)
	// one split in three is a contiguous cut: the file is cut at 1-2 declaration boundaries and the
	// pieces keep their order, so that whatever a checker carries from one declaration to the next
	// (one-shot flags, cursors, "previous" pointers) is carried across a file boundary when the
	// files are analysed in order
	contiguous := rapid.IntRange(0, 2).Draw(t, "splitContiguous") == 0
	cuts := make([]int, 0, 2)
	if contiguous {
		for i := 1; i < n; i++ {
			cuts = append(cuts, rapid.IntRange(1, len(chunks)-2).Draw(t, "splitCut"))
		}
	}
	for ci, c := range chunks[1:] {
		k := 0
		if contiguous {
			for _, cut := range cuts {
				if ci >= cut {
					k++
				}
			}
		} else {
			k = rapid.IntRange(0, n-1).Draw(t, "splitTo")
		}
		bodies[k].WriteString(strings.Join(c.Lines, "\n"))
		bodies[k].WriteString("\n")
	}
	var srcs []core.Source
	for k := range bodies {
		body := bodies[k].String()
		if strings.TrimSpace(body) == "" {
			continue
		}
		srcs = append(srcs, core.Source{Name: fmt.Sprintf("k%d.go", k), Text: MinimalHeader(p.Files[0].Name.Name, body) + "\n" + body})
	}
	if len(srcs) < 2 {
		return nil, false
	}
	next := e.Load(srcs)
	if !next.OK() {
		return nil, false
	}
	return next, true
}

// DrawFamilyProgram renders 2-5 kernels of one checker family into a package that is split over
// several files whenever possible: histories and pools built from it make one checker meet its own
// subject again and again, in different files and packages.
func DrawFamilyProgram(t *rapid.T, e *Env, checker string, onReject func(label, why string)) (*core.Program, *ProgCase) {
	family := KernelsFor(checker)
	if len(family) == 0 {
		return nil, nil
	}
	n := rapid.IntRange(2, 5).Draw(t, "familyKernels")
	ks := make([]Kernel, 0, n)
	for i := 0; i < n; i++ {
		ks = append(ks, family[rapid.IntRange(0, len(family)-1).Draw(t, "familyKernel")])
	}
	p := e.Load(KernelFileFor(t, ks, false))
	if !p.OK() {
		if onReject != nil {
			onReject("family-kernels", p.ErrSummary())
		}
		return nil, nil
	}
	pc := &ProgCase{Origin: "kernels", Muts: []string{"family:" + checker}}
	if next, ok := splitFiles(t, e, p); ok {
		p = next
		pc.Muts = append(pc.Muts, "split-files")
	}
	pc.Files = Sources(p)
	return p, pc
}
