package gen

import (
	"regexp"
	"strings"

	"pgregory.net/rapid"
)

// RegexGen is a grammar over Go's regexp syntax biased to the simplifier's rewrite sites.
type RegexGen struct{ T *rapid.T }

func (g *RegexGen) pick(label string, xs ...string) string { return pick(g.T, label, xs) }

func (g *RegexGen) lit() string {
	return g.pick("lit", "a", "b", "c", "x", "0", "1", "-", "]", "{", "}", "^", "$", " ", "é", "_", ",", "=", "/", ":", "&", "#", "!", "@", "%", "<", ">", ";", "A", "z", "9", "\t")
}

// atomLit returns a literal usable outside a class (metacharacters escaped sometimes).
func (g *RegexGen) atomLit() string {
	l := g.lit()
	switch l {
	case "]", "{", "}", "^", "$":
		if l == "^" || l == "$" || rapid.Bool().Draw(g.T, "escmeta") {
			return `\` + l
		}
		return l
	}
	if rapid.IntRange(0, 9).Draw(g.T, "escape") == 0 && strings.ContainsAny(l, "&#!@%<>:;/,=-_ ") {
		return `\` + l
	}
	return l
}

func (g *RegexGen) classElem() string {
	switch rapid.IntRange(0, 9).Draw(g.T, "classElem") {
	case 0:
		return g.pick("range", "a-c", "a-b", "a-a", "0-9", "0-2", "a-z", "A-Z", "x-z", "+--", "a-d")
	case 1:
		return g.pick("perl", `\d`, `\w`, `\s`, `\D`, `\W`, `\S`)
	case 2:
		return g.pick("posix", "[:alpha:]", "[:digit:]", "[:^digit:]", "[:word:]", "[:space:]")
	case 3:
		return g.pick("escInClass", `\.`, `\]`, `\-`, `\^`, `\\`, `\[`, `\{`, `\/`, `\n`, `\x41`)
	default:
		l := g.lit()
		if l == "]" || l == "^" || l == `\` {
			return `\` + l
		}
		return l
	}
}

func (g *RegexGen) class() string {
	neg := ""
	if rapid.IntRange(0, 4).Draw(g.T, "neg") == 0 {
		neg = "^"
	}
	n := rapid.IntRange(1, 3).Draw(g.T, "nclass")
	if rapid.IntRange(0, 2).Draw(g.T, "single") == 0 {
		n = 1
	}
	var sb strings.Builder
	sb.WriteString("[" + neg)
	for i := 0; i < n; i++ {
		sb.WriteString(g.classElem())
	}
	sb.WriteString("]")
	return sb.String()
}

func (g *RegexGen) atom(d int) string {
	switch rapid.IntRange(0, 13).Draw(g.T, "atom") {
	case 0, 1, 2, 3:
		return g.atomLit()
	case 4:
		return g.class()
	case 5:
		return g.pick("perlatom", `\d`, `\w`, `\s`, `.`, `\D`, `\b`, `\.`, `\pL`, `[[:alpha:]]`, `^`, `$`, `^`, `\A`, `\z`)
	case 6:
		if d < 3 {
			return "(" + g.alt(d+1) + ")"
		}
	case 7:
		if d < 3 {
			return "(?:" + g.alt(d+1) + ")"
		}
	case 8:
		if d < 3 {
			return g.pick("named", "(?P<n>", "(?P<m>") + g.alt(d+1) + ")"
		}
	case 9:
		if d < 3 {
			switch rapid.IntRange(0, 3).Draw(g.T, "flagform") {
			case 0:
				return g.pick("flagonly", "(?i)", "(?s)", "(?m)", "(?U)", "(?is)", "(?i-s)", "(?-i)")
			case 1:
				// a group, a flag-only group, then a group whose flags depend on it
				fl := g.pick("fl", "i", "s", "m", "U")
				return "(" + g.alt(d+1) + ")(?" + fl + ")(?" + g.pick("fl2", fl, fl+"s", "-"+fl, "i") + ":" + g.concat(d+1) + ")"
			}
			return g.pick("flags", "(?i:", "(?s:", "(?is:", "(?U:", "(?m:", "(?i-s:") + g.concat(d+1) + ")"
		}
	case 12:
		// a repeated / dropped non-capturing group, possibly with captures under quantifiers
		if d < 3 {
			inner := g.alt(d + 1)
			if rapid.IntRange(0, 2).Draw(g.T, "capIn") > 0 {
				inner = "(" + g.atomLit() + ")" + g.pick("capq", "", "*", "+", "?", "*?", "+?", "??", "{2}", "{1,2}?") + inner
			}
			G := "(?:" + inner + ")"
			switch rapid.IntRange(0, 5).Draw(g.T, "dupform") {
			case 0:
				return G + G + "*"
			case 1:
				return G + G
			case 2:
				return G + "{0}" + g.atomLit()
			case 3:
				return G + G + G
			case 4:
				return G + "{1}"
			}
			return G + "{0,1}"
		}
	case 11:
		// escapes whose removal would change how the surrounding text is tokenised
		return g.pick("escctx", `x{1\,2}`, `x{1\,}`, `[[\:alpha\:]]`, `[\:x\:]`, `a\{1\,2\}`, `x{2\,3}y`, `[[\=a\=]]`, `[a\-z]`, `[\^a]`, `(\?:a)`, `a\{2}`, `x{\,1}`, `[[\:digit\:]]+`, `\<a\>`, `(?\:a)`)
	case 13:
		// literal braces next to text that rewrites drop, unwrap or merge: a literal `{` must not
		// become a repetition operator, digits must not join an octal escape, counts have limits
		n := rapid.IntRange(1, 3).Draw(g.T, "nbrace")
		var sb strings.Builder
		for i := 0; i < n; i++ {
			sb.WriteString(g.pick("bracepre", "a", "x", "", "b"))
			sb.WriteString(g.pick("brace", "{[1]}", "{[2],[3]}", "{1[,]2}", "{[1],}", "{{1}2}", "{b{0}2}", "{1,{1}2}", "{1b{0},2}", "{1{1}}", "{[1-1]}", "{11{0},}", "{,[1]}", "{[a]}", "{}",
				"{{1}0,}", "{1,2{1}}", "{[12]{1}}", "{\\d{0}3}", "{(?:b){0}2,}", "{00}", "{01}b{1}", "{1,02}[c]", "}{00}{0}"))
			sb.WriteString(g.pick("bracepost", "", "", "b", "*", "[z]", "{1}"))
		}
		if rapid.IntRange(0, 3).Draw(g.T, "octal") == 0 {
			sb.WriteString(g.pick("octal", "\\0{1}2", "\\0[1]", "\\01{1}2", "\\0a{0}1", "\\012{1}3", "\\1[2]", "\\x41{1}1"))
		}
		if rapid.IntRange(0, 5).Draw(g.T, "bigrep") == 0 {
			sb.WriteString(g.pick("bigrep", "(222222){200}", "(?:aaaa){500}", "(?:aaa){2}{200}", "(xx){1000}", "(?:bbbbbb){100,180}"))
		}
		return sb.String()
	case 10:
		// run of equal atoms
		a := g.pick("runatom", "a", "x", " ", `\d`, "[a-z]", ".", "-", "0")
		n := rapid.IntRange(2, 4).Draw(g.T, "runlen")
		return strings.Repeat(a, n) + g.pick("runtail", "", "*", "+", "{2}", "1", "{", "?")
	}
	return g.atomLit()
}

func ifClose(g *RegexGen) string { return ")" }

func (g *RegexGen) repeat(a string) string {
	switch rapid.IntRange(0, 13).Draw(g.T, "repeat") {
	case 0:
		return a + "*"
	case 1:
		return a + "+"
	case 2:
		return a + "?"
	case 3:
		return a + "{0,1}"
	case 4:
		return a + "{1,}"
	case 5:
		return a + "{0,}"
	case 6:
		return a + "{0}"
	case 7:
		return a + "{1}"
	case 8:
		return a + g.pick("rep", "{2}", "{1,2}", "{2,}", "{0,2}", "{3}")
	case 9:
		return a + g.pick("lazy", "*?", "+?", "??", "{1,}?", "{0,1}?", "{1}?", "{0}?", "{2}?", "{0,}?", "{1,2}?")
	case 10:
		// x x* and friends
		return a + a + "*"
	}
	return a
}

func (g *RegexGen) concat(d int) string {
	n := rapid.IntRange(1, 4).Draw(g.T, "nconcat")
	var sb strings.Builder
	for i := 0; i < n; i++ {
		sb.WriteString(g.repeat(g.atom(d)))
	}
	return sb.String()
}

func (g *RegexGen) alt(d int) string {
	switch rapid.IntRange(0, 9).Draw(g.T, "altform") {
	case 0, 1:
		// single-char alternation incl. class metacharacters
		n := rapid.IntRange(2, 4).Draw(g.T, "nalt1")
		var parts []string
		for i := 0; i < n; i++ {
			parts = append(parts, g.atomLit())
		}
		return strings.Join(parts, "|")
	case 2:
		// literals sharing a prefix / suffix
		base := g.pick("word", "ab", "http", "fo", "x", "a-", "go")
		ext := g.pick("ext", "s", "o", "c", "-", "1")
		forms := []string{base + "|" + base + ext, base + ext + "|" + base, ext + base + "|" + base, base + "|" + ext + base,
			base + ext + "|" + base + g.pick("ext2", "t", "z"), base + "|" + base}
		return pick(g.T, "prefixform", forms)
	case 3, 4:
		n := rapid.IntRange(2, 3).Draw(g.T, "nalt")
		var parts []string
		for i := 0; i < n; i++ {
			parts = append(parts, g.concat(d))
		}
		return strings.Join(parts, "|")
	}
	return g.concat(d)
}

// Pattern draws a pattern accepted by regexp.Compile, at most 60 bytes; ok=false otherwise.
func (g *RegexGen) Pattern() (string, bool) {
	p := g.alt(0)
	if rapid.IntRange(0, 7).Draw(g.T, "anchors") == 0 {
		p = g.pick("pre", "^", `\A`, "") + p + g.pick("post", "$", `\z`, "")
	}
	if len(p) > 60 || len(p) == 0 {
		return p, false
	}
	if _, err := regexp.Compile(p); err != nil {
		return p, false
	}
	return p, true
}
