package props

import (
	"encoding/json"
	"fmt"
	"go/scanner"
	"go/token"
	"sort"
	"strings"
	"testing"

	"pgregory.net/rapid"

	"verif/harness/core"
	"verif/harness/gen"
)

func init() {
	register("C01", prop{
		Run: func(t *testing.T, rec *core.Recorder) {
			env, all := sharedEnv(t)
			check(t, func(rt *rapid.T) {
				defer env.Release()
				defer watchdogDisarm()
				var p *core.Program
				var pc *gen.ProgCase
				if rapid.IntRange(0, 7).Draw(rt, "splice") == 0 {
					// constants and comments reaching the regexp-, format- and comment-analysing checkers
					var ok bool
					if p, pc, ok = drawSpliceProgram(rt, env); !ok {
						rec.Reject()
						rec.Count("rejected:splice")
						rt.Skip("spliced text does not give a well-typed file")
					}
				} else {
					p, pc = gen.DrawProgram(rt, env, gen.DrawOpts{}, rejectCounter(rec))
				}
				pc.Params = gen.DrawParams(rt)
				checkC01(rt, rec, env, all, p, pc)
			})
		},
		Replay: func(t *testing.T, rec *core.Recorder, raw json.RawMessage) {
			env, all := sharedEnv(t)
			var pc gen.ProgCase
			if err := json.Unmarshal(raw, &pc); err != nil {
				t.Fatal(err)
			}
			p := env.Load(pc.Files)
			if !p.OK() {
				t.Skipf("replay case is not well-typed any more: %s", p.ErrSummary())
			}
			checkC01(t, rec, env, all, p, &pc)
		},
	})
	register("C07", prop{
		Run: func(t *testing.T, rec *core.Recorder) {
			env, all := sharedEnv(t)
			check(t, func(rt *rapid.T) {
				defer env.Release()
				var p *core.Program
				var pc *gen.ProgCase
				if rapid.IntRange(0, 7).Draw(rt, "splice") == 0 {
					var ok bool
					if p, pc, ok = drawSpliceProgram(rt, env); !ok {
						rec.Reject()
						rec.Count("rejected:splice")
						rt.Skip("spliced text does not give a well-typed file")
					}
				} else {
					p, pc = gen.DrawProgram(rt, env, gen.DrawOpts{}, rejectCounter(rec))
				}
				if rapid.IntRange(0, 2).Draw(rt, "withParams") == 0 {
					pc.Params = gen.DrawParams(rt)
				}
				checkC07(rt, rec, all, p, pc)
			})
		},
		Replay: func(t *testing.T, rec *core.Recorder, raw json.RawMessage) {
			env, all := sharedEnv(t)
			var pc gen.ProgCase
			if err := json.Unmarshal(raw, &pc); err != nil {
				t.Fatal(err)
			}
			p := env.Load(pc.Files)
			if !p.OK() {
				t.Skipf("replay case is not well-typed any more: %s", p.ErrSummary())
			}
			checkC07(t, rec, all, p, &pc)
		},
	})
}

// checkC01: every checker (long-lived, default parameters, as the CLI runs them) and fresh
// instances of the parameterised checkers under the drawn parameter values must return without
// a panic. Hangs / fatal errors are caught by the watchdog and the driver.
func checkC01(t core.TB, rec *core.Recorder, env *gen.Env, all *core.Set, p *core.Program, pc *gen.ProgCase) {
	rec.Eval()
	core.WriteCurrent(pc)
	watchdogArm()
	defer watchdogDisarm()
	nDiag := 0
	report := func(cr *core.Crash) {
		rec.Violation(t, cr.Signature("C01"),
			fmt.Sprintf("checker %s panicked: %s\nat %s\n%s", cr.Checker, cr.Value, cr.Frame, cr.Stack), pc)
	}
	for i := range p.Files {
		diags, crashes := all.RunAll(p, i)
		for _, cr := range crashes {
			report(cr)
		}
		for name, ds := range diags {
			nDiag += len(ds)
			if len(ds) > 0 {
				rec.CountN("diag:"+name, len(ds))
			}
		}
	}
	if len(pc.Params) > 0 {
		gen.WithParams(pc.Params, func() {
			set, err := core.NewSet(env.Fset, gen.ParamCheckers(pc.Params))
			if err != nil {
				// a constructor may reject a value (documented error path), that is not a crash
				rec.Count("param-init-error")
				return
			}
			for i := range p.Files {
				diags, crashes := set.RunAll(p, i)
				for _, cr := range crashes {
					report(cr)
				}
				for _, ds := range diags {
					nDiag += len(ds)
				}
			}
		})
	}
	rec.Count("origin:" + originClass(pc.Origin))
	for _, m := range pc.Muts {
		rec.Count("mut:" + m)
	}
	if len(pc.Muts) > 0 || pc.Origin == "kernels" || pc.Origin == "fuzz" {
		rec.Nontrivial(pc.Key())
		rec.Sample("nontrivial", 3, progSample(pc, map[string]any{"diagnostics": nDiag}))
	} else {
		rec.Sample("trivial(corpus as is)", 1, map[string]any{"origin": pc.Origin, "diagnostics": nDiag})
	}
}

func originClass(o string) string {
	if strings.HasPrefix(o, "corpus:") {
		return "corpus"
	}
	return o
}

// tokenStarts returns the set of byte offsets at which a token or a comment starts.
func tokenStarts(src []byte) map[int]bool {
	fset := token.NewFileSet()
	f := fset.AddFile("x.go", -1, len(src))
	var s scanner.Scanner
	s.Init(f, src, nil, scanner.ScanComments)
	out := map[int]bool{}
	for {
		pos, tok, lit := s.Scan()
		if tok == token.EOF {
			break
		}
		if tok == token.SEMICOLON && lit == "\n" {
			continue // automatically inserted
		}
		out[f.Offset(pos)] = true
	}
	return out
}

var artefacts = []string{"%!", "(PANIC=", "<nil>", "BadExpr", "BadStmt", "BadDecl", "%!(EXTRA", "(MISSING)", "(BADINDEX)"}

// checkC07: every diagnostic points at a real token of the analysed file; fix ranges are sane;
// messages are free of formatting artefacts.
func checkC07(t core.TB, rec *core.Recorder, all *core.Set, p *core.Program, pc *gen.ProgCase) {
	rec.Eval()
	for i := range p.Files {
		diags, _ := all.RunAll(p, i) // crashes are C01's subject
		judgeDiagnostics(t, rec, p, pc, i, diags)
	}
	// the parameterised checkers again under the drawn parameter values (a position can depend on
	// which branch a threshold selects)
	if len(pc.Params) > 0 {
		gen.WithParams(pc.Params, func() {
			set, err := core.NewSet(p.Fset, gen.ParamCheckers(pc.Params))
			if err != nil {
				rec.Count("param-init-error")
				return
			}
			for i := range p.Files {
				diags, _ := set.RunAll(p, i)
				judgeDiagnostics(t, rec, p, pc, i, diags)
			}
		})
	}
	rec.Sample("case", 3, progSample(pc, nil))
}

func judgeDiagnostics(t core.TB, rec *core.Recorder, p *core.Program, pc *gen.ProgCase, i int, diags map[string][]core.Diag) {
	{
		var starts map[int]bool
		names := make([]string, 0, len(diags))
		for n := range diags {
			names = append(names, n)
		}
		sort.Strings(names)
		src := p.Srcs[i]
		for _, name := range names {
			for _, d := range diags[name] {
				if starts == nil {
					starts = tokenStarts(src)
				}
				clause := ""
				switch {
				case d.Line == 0 || d.File == "":
					clause = "no-position"
				case d.File != p.Names[i]:
					clause = "foreign-file"
				case !starts[d.Offset]:
					clause = "not-a-token-start"
				case strings.TrimSpace(d.Text) == "":
					clause = "empty-message"
				}
				if clause == "" && d.HasFix {
					switch {
					case d.FixFrom < 0 || d.FixTo < 0:
						clause = "fix-no-position"
					case d.FixFrom > d.FixTo:
						clause = "fix-inverted"
					case d.FixTo > len(src):
						clause = "fix-outside-file"
					}
				}
				if clause == "" {
					for _, a := range artefacts {
						if strings.Contains(d.Text, a) && !strings.Contains(string(src), a) {
							clause = "artefact:" + a
							break
						}
					}
				}
				rec.Nontrivial(name, core.NormMsg(d.Text), nodeKindAt(src, d.Offset))
				rec.Count("diag:" + name)
				rec.Sample("diagnostic", 4, d.String())
				if clause != "" {
					sig := "C07|" + name + "|" + clause
					rec.Violation(t, sig, fmt.Sprintf("%s\n(position offset %d of %s)", d.String(), d.Offset, d.File), pc)
				}
			}
		}
	}
}

// nodeKindAt classifies the token at offset (used only to make non-trivial cases distinct).
func nodeKindAt(src []byte, off int) string {
	if off < 0 || off >= len(src) {
		return "?"
	}
	c := src[off]
	switch {
	case c == '/':
		return "comment"
	case c >= 'a' && c <= 'z' || c >= 'A' && c <= 'Z' || c == '_':
		return "ident"
	case c >= '0' && c <= '9':
		return "number"
	}
	return string(c)
}
