package props

import (
	"encoding/json"
	"fmt"
	"reflect"
	"sort"
	"strings"
	"sync"
	"testing"

	"pgregory.net/rapid"

	"github.com/go-critic/go-critic/linter"

	"verif/harness/core"
	"verif/harness/gen"
)

func init() {
	register("C02", prop{
		Run: func(t *testing.T, rec *core.Recorder) {
			env, all := sharedEnv(t)
			check(t, func(rt *rapid.T) {
				defer env.Release()
				var p *core.Program
				var pc *gen.ProgCase
				if rapid.IntRange(0, 9).Draw(rt, "importHeavy") < 3 {
					srcs := gen.DrawImportHeavyFile(rt)
					p = env.Load(srcs)
					pc = &gen.ProgCase{Origin: "import-heavy", Files: srcs}
					if !p.OK() {
						rejectCounter(rec)("import-heavy", p.ErrSummary())
						rt.Skip("not well-typed")
					}
				} else {
					p, pc = gen.DrawProgram(rt, env, gen.DrawOpts{}, rejectCounter(rec))
				}
				fresh := rapid.IntRange(0, 39).Draw(rt, "freshAll") == 0
				checkC02(rt, rec, env, all, p, pc, fresh)
			})
		},
		Replay: func(t *testing.T, rec *core.Recorder, raw json.RawMessage) {
			env, all := sharedEnv(t)
			var pc gen.ProgCase
			if err := json.Unmarshal(raw, &pc); err != nil {
				t.Fatal(err)
			}
			p := env.Load(pc.Files)
			if !p.OK() {
				t.Skipf("replay case is not well-typed any more: %s", p.ErrSummary())
			}
			// a map-order dependence shows with probability >= 1/2 per attempt
			for i := 0; i < 8; i++ {
				checkC02(t, rec, env, all, p, &pc, i == 0)
			}
		},
	})
	register("C03", prop{
		Run: func(t *testing.T, rec *core.Recorder) {
			env, _ := sharedEnv(t)
			check(t, func(rt *rapid.T) {
				defer env.Release()
				hc := drawHistory(rt, rec, env)
				checkC03(rt, rec, env, hc)
			})
		},
		Replay: func(t *testing.T, rec *core.Recorder, raw json.RawMessage) {
			env, _ := sharedEnv(t)
			var hc historyCase
			if err := json.Unmarshal(raw, &hc); err != nil {
				t.Fatal(err)
			}
			checkC03(t, rec, env, &hc)
		},
	})
	register("C05", prop{
		Run: func(t *testing.T, rec *core.Recorder) {
			env, all := sharedEnv(t)
			check(t, func(rt *rapid.T) {
				defer env.Release()
				p, pc := gen.DrawProgram(rt, env, gen.DrawOpts{FreshCorpus: true}, rejectCounter(rec))
				perm := rapid.Permutation(seq(len(all.Checkers))).Draw(rt, "order")
				checkC05(rt, rec, env, all, p, &orderCase{ProgCase: *pc, Order: perm})
			})
		},
		Replay: func(t *testing.T, rec *core.Recorder, raw json.RawMessage) {
			env, all := sharedEnv(t)
			var oc orderCase
			if err := json.Unmarshal(raw, &oc); err != nil {
				t.Fatal(err)
			}
			p := env.Load(oc.Files)
			if !p.OK() {
				t.Skipf("replay case is not well-typed any more: %s", p.ErrSummary())
			}
			checkC05(t, rec, env, all, p, &oc)
		},
	})
}

func seq(n int) []int {
	out := make([]int, n)
	for i := range out {
		out[i] = i
	}
	return out
}

// cmpDiag is what must be equal between repetitions (file name excluded: a fresh re-load
// lives in another directory).
type cmpDiag struct {
	Line, Col, Offset int
	Text              string
	HasFix            bool
	FixFrom, FixTo    int
	Fix               string
}

func toCmp(ds []core.Diag) []cmpDiag {
	out := make([]cmpDiag, len(ds))
	for i, d := range ds {
		out[i] = cmpDiag{d.Line, d.Col, d.Offset, d.Text, d.HasFix, d.FixFrom, d.FixTo, d.Fix}
	}
	return out
}

func diffDiags(a, b []cmpDiag) string {
	if len(a) != len(b) {
		return fmt.Sprintf("count %d vs %d", len(a), len(b))
	}
	for i := range a {
		if a[i] != b[i] {
			what := "order/position"
			if a[i].Line == b[i].Line && a[i].Col == b[i].Col {
				if a[i].Text != b[i].Text {
					what = "text"
				} else {
					what = "fix"
				}
			}
			return fmt.Sprintf("%s at #%d: %v vs %v", what, i, a[i], b[i])
		}
	}
	return ""
}

func sameMultiset(a, b []cmpDiag) bool {
	if len(a) != len(b) {
		return false
	}
	key := func(d cmpDiag) string { return fmt.Sprint(d) }
	m := map[string]int{}
	for _, d := range a {
		m[key(d)]++
	}
	for _, d := range b {
		m[key(d)]--
	}
	for _, v := range m {
		if v != 0 {
			return false
		}
	}
	return true
}

// checkC02: K repetitions with the long-lived set, repetitions on a fresh re-parse (and with a
// completely fresh checker set when freshAll) must give identical ordered diagnostics.
func checkC02(t core.TB, rec *core.Recorder, env *gen.Env, all *core.Set, p *core.Program, pc *gen.ProgCase, freshAll bool) {
	rec.Eval()
	names1 := checkerNames(linter.GetCheckersInfo())
	type run struct {
		label string
		res   []map[string][]cmpDiag // per file
	}
	runOn := func(set *core.Set, prog *core.Program) []map[string][]cmpDiag {
		out := make([]map[string][]cmpDiag, len(prog.Files))
		for i := range prog.Files {
			ds, _ := set.RunAll(prog, i)
			m := map[string][]cmpDiag{}
			for n, d := range ds {
				m[n] = toCmp(d)
			}
			out[i] = m
		}
		return out
	}
	var runs []run
	for k := 0; k < 4; k++ {
		runs = append(runs, run{fmt.Sprintf("long-lived #%d", k), runOn(all, p)})
	}
	// fresh parse + type-check of the same bytes
	p2 := env.Load(pc.Files)
	if p2.OK() {
		runs = append(runs, run{"re-parsed", runOn(all, p2)})
		hw, err := core.NewSet(env.Fset, core.HandWritten())
		if err == nil {
			r := runOn(hw, p2)
			// restrict comparison to hand-written checkers for this run
			runs = append(runs, run{"fresh hand-written set", r})
		}
		if freshAll {
			fs, err := core.NewSet(env.Fset, core.Registry())
			if err == nil {
				runs = append(runs, run{"fresh full set", runOn(fs, p2)})
				rec.Count("fresh-full-set")
			}
		}
	}
	// goroutine timing as adversary: independent fresh hand-written sets analyse the same package
	// at the same time (what parallel go/analysis passes do); each must equal the sequential result
	if p2.OK() {
		const par = 4
		res := make([][]map[string][]cmpDiag, par)
		var wg sync.WaitGroup
		for g := 0; g < par; g++ {
			wg.Add(1)
			go func(g int) {
				defer wg.Done()
				defer func() { recover() }()
				if hw, err := core.NewSet(env.Fset, core.HandWritten()); err == nil {
					res[g] = runOn(hw, p2)
				}
			}(g)
		}
		wg.Wait()
		for g := 0; g < par; g++ {
			if res[g] != nil {
				runs = append(runs, run{fmt.Sprintf("fresh hand-written set (parallel #%d)", g), res[g]})
			} else {
				rec.Violation(t, "C02|parallel|crash", "a fresh checker set analysing in parallel with others crashed", pc)
			}
		}
	}
	names2 := checkerNames(linter.GetCheckersInfo())
	if !reflect.DeepEqual(names1, names2) {
		rec.Violation(t, "C02|registry|order", "GetCheckersInfo returned a different order on a second call", pc)
	}
	base := runs[0]
	multi := false
	for fi := range base.res {
		for name, ds := range base.res[fi] {
			if len(ds) >= 2 {
				multi = true
				rec.Count("multi:" + name)
			}
		}
	}
	for _, r := range runs[1:] {
		for fi := range base.res {
			for name, want := range base.res[fi] {
				got, ok := r.res[fi][name]
				if !ok {
					if strings.HasPrefix(r.label, "fresh hand-written set") {
						continue
					}
					got = nil
				}
				if d := diffDiags(want, got); d != "" {
					what := "content"
					if sameMultiset(want, got) {
						what = "order"
					}
					rec.Violation(t, "C02|"+name+"|"+what,
						fmt.Sprintf("checker %s, file %d: %s vs %s: %s", name, fi, base.label, r.label, d), pc)
				}
			}
		}
	}
	if multi {
		rec.Nontrivial(pc.Key())
		rec.Sample("nontrivial", 3, progSample(pc, nil))
	} else {
		rec.Sample("trivial(no checker with >= 2 diagnostics)", 1, map[string]any{"origin": pc.Origin})
	}
}

func checkerNames(infos []*linter.CheckerInfo) []string {
	out := make([]string, len(infos))
	for i, in := range infos {
		out[i] = in.Name
	}
	return out
}

// ---------------------------------------------------------------------------------------------
// C03

type visit struct {
	Prog int `json:"prog"`
	File int `json:"file"`
}

type historyCase struct {
	Progs    []gen.ProgCase `json:"programs"`
	Embedded []string       `json:"embedded_checkers"`
	Visits   []visit        `json:"visits"`
}

func drawHistory(rt *rapid.T, rec *core.Recorder, env *gen.Env) *historyCase {
	hc := &historyCase{}
	n := rapid.IntRange(2, 6).Draw(rt, "npool")
	// one pool in three is built from a single checker family (multi-file packages): the same
	// checker then sees its own subject in consecutive files and packages
	family := ""
	if rapid.IntRange(0, 2).Draw(rt, "focusedPool") == 0 {
		family = gen.Kernels[rapid.IntRange(0, len(gen.Kernels)-1).Draw(rt, "poolFamily")].Checker
	}
	for i := 0; i < n; i++ {
		var pc *gen.ProgCase
		if family != "" {
			_, pc = gen.DrawFamilyProgram(rt, env, family, rejectCounter(rec))
		}
		if pc == nil {
			_, pc = gen.DrawProgram(rt, env, gen.DrawOpts{MaxMuts: 2}, rejectCounter(rec))
		}
		hc.Progs = append(hc.Progs, *pc)
	}
	emb := core.Embedded()
	if rapid.IntRange(0, 19).Draw(rt, "allEmbedded") == 0 {
		for _, in := range emb {
			hc.Embedded = append(hc.Embedded, in.Name)
		}
	} else {
		k := rapid.IntRange(0, 6).Draw(rt, "nembedded")
		for i := 0; i < k; i++ {
			hc.Embedded = append(hc.Embedded, emb[rapid.IntRange(0, len(emb)-1).Draw(rt, "embedded")].Name)
		}
	}
	nv := rapid.IntRange(2, 30).Draw(rt, "nvisits")
	for len(hc.Visits) < nv {
		pi := rapid.IntRange(0, n-1).Draw(rt, "prog")
		nf := len(hc.Progs[pi].Files)
		// one step in three is a sweep over all files of the package in file order (what the
		// command does for every package), so that the end of one file is followed by the start
		// of the next file of the same package; the others are single visits in any order
		if nf > 1 && rapid.IntRange(0, 2).Draw(rt, "sweep") == 0 {
			for fi := 0; fi < nf; fi++ {
				hc.Visits = append(hc.Visits, visit{pi, fi})
			}
			continue
		}
		fi := rapid.IntRange(0, nf-1).Draw(rt, "file")
		hc.Visits = append(hc.Visits, visit{pi, fi})
	}
	return hc
}

var statefulCheckers = map[string]bool{
	"ifElseChain": true, "typeAssertChain": true, "dupCase": true, "mapKey": true, "typeSwitchVar": true,
	"commentedOutCode": true, "badRegexp": true, "regexpSimplify": true, "typeDefFirst": true,
	"unnecessaryDefer": true, "deferInLoop": true, "dupImport": true, "importShadow": true, "appendCombine": true,
	"commentFormatting": true, "dupBranchBody": true, "codegenComment": true, "whyNoLint": true, "docStub": true,
}

// checkC03: a long-lived checker set driven through a generated history of (package, file)
// visits, exactly as the CLI drives it, must report for every visit what a freshly created
// set reports for that file.
func checkC03(t core.TB, rec *core.Recorder, env *gen.Env, hc *historyCase) {
	rec.Eval()
	progs := make([]*core.Program, len(hc.Progs))
	for i := range hc.Progs {
		progs[i] = env.Load(hc.Progs[i].Files)
		if !progs[i].OK() {
			rec.Reject()
			return
		}
	}
	infos := append([]*linter.CheckerInfo{}, core.HandWritten()...)
	seen := map[string]bool{}
	for _, n := range hc.Embedded {
		if in := core.InfoByName(n); in != nil && !seen[n] {
			seen[n] = true
			infos = append(infos, in)
		}
	}
	long, err := core.NewSet(env.Fset, infos)
	if err != nil {
		rec.Inconclusive("C03: " + err.Error())
		return
	}
	// reference: fresh set per (program, file), computed lazily and memoised
	type key struct{ p, f int }
	ref := map[key]map[string][]cmpDiag{}
	reference := func(k key) map[string][]cmpDiag {
		if r, ok := ref[k]; ok {
			return r
		}
		fs, err := core.NewSet(env.Fset, infos)
		if err != nil {
			return nil
		}
		ds, _ := fs.RunAll(progs[k.p], k.f)
		m := map[string][]cmpDiag{}
		for n, d := range ds {
			m[n] = toCmp(d)
		}
		ref[k] = m
		return m
	}
	lastProg := -1
	prevHadDiag := false
	nontrivial := false
	for vi, v := range hc.Visits {
		if v.Prog >= len(progs) || v.File >= len(progs[v.Prog].Files) {
			continue
		}
		want := reference(key{v.Prog, v.File})
		p := progs[v.Prog]
		if v.Prog != lastProg {
			long.BindPackage(p) // the CLI sets package info once per package
			lastProg = v.Prog
		}
		long.BindFile(p, v.File)
		hadDiag := false
		for _, c := range long.Checkers {
			ws, cr := core.RunOne(c, p.Files[v.File])
			if cr != nil {
				continue // C01's subject
			}
			got := toCmp(core.DiagsOf(p.Fset, c.Info.Name, ws))
			if len(got) > 0 {
				hadDiag = true
				if statefulCheckers[c.Info.Name] && prevHadDiag {
					nontrivial = true
					rec.Count("stateful-hit:" + c.Info.Name)
				}
			}
			if d := diffDiags(want[c.Info.Name], got); d != "" {
				kind := "other-package"
				if vi > 0 && hc.Visits[vi-1].Prog == v.Prog {
					kind = "same-package"
					if hc.Visits[vi-1].File == v.File {
						kind = "same-file"
					}
				}
				if vi == 0 {
					kind = "first-visit"
				}
				rec.Violation(t, "C03|"+c.Info.Name+"|"+kind,
					fmt.Sprintf("visit #%d (program %d file %d): long-lived %s differs from a fresh instance: %s (fresh first)", vi, v.Prog, v.File, c.Info.Name, d), hc)
			}
		}
		if hadDiag {
			prevHadDiag = true
		}
	}
	if nontrivial {
		var sb strings.Builder
		for _, pc := range hc.Progs {
			sb.WriteString(pc.Key())
		}
		rec.Nontrivial(sb.String(), fmt.Sprint(hc.Visits), fmt.Sprint(hc.Embedded))
		origins := []string{}
		for _, pc := range hc.Progs {
			origins = append(origins, pc.Origin+fmt.Sprint(pc.Muts))
		}
		rec.Sample("nontrivial history", 3, map[string]any{"pool": origins, "embedded": hc.Embedded, "visits": hc.Visits})
	}
	rec.CountN("visits", len(hc.Visits))
}

// ---------------------------------------------------------------------------------------------
// C05

type orderCase struct {
	gen.ProgCase
	Order []int `json:"order"`
}

// checkC05: a structural fingerprint of the tree, the type info, the shared context and the
// registry is taken before and after every single Check; any difference is a violation that
// names the first differing path. Consequence clause: results under a random checker order
// equal the results in registry order on a pristine re-parse.
func checkC05(t core.TB, rec *core.Recorder, env *gen.Env, all *core.Set, p *core.Program, oc *orderCase) {
	rec.Eval()
	pc := &oc.ProgCase
	order := oc.Order
	if len(order) != len(all.Checkers) {
		order = seq(len(all.Checkers))
	}
	regBefore := core.RegistryFingerprint()
	permuted := make([]map[string][]cmpDiag, len(p.Files))
	for fi, f := range p.Files {
		all.BindPackage(p)
		all.BindFile(p, fi)
		// self-test of the fingerprint: two dumps of an untouched tree are equal
		fp := core.FingerprintFile(f)
		if ok, _ := fp.Equal(core.FingerprintFile(f)); !ok {
			rec.Inconclusive("fingerprint is not deterministic")
			return
		}
		ifp := core.InfoFingerprint(p.Info)
		cfp := core.ContextFingerprint(all.Ctx)
		permuted[fi] = map[string][]cmpDiag{}
		for _, ci := range order {
			if ci < 0 || ci >= len(all.Checkers) {
				continue
			}
			c := all.Checkers[ci]
			ws, cr := core.RunOne(c, f)
			name := c.Info.Name
			if cr == nil {
				permuted[fi][name] = toCmp(core.DiagsOf(p.Fset, name, ws))
				if len(ws) > 0 {
					rec.Nontrivial(name, pc.Key())
					rec.Count("fired:" + name)
				}
			}
			after := core.FingerprintFile(f)
			if ok, idx := fp.Equal(after); !ok {
				path := core.PathAt(f, idx)
				rec.Violation(t, "C05|"+name+"|tree:"+core.PathClass(path),
					fmt.Sprintf("checker %s changed the syntax tree of file %d at %s", name, fi, path), oc)
				fp = after
			}
			if ia := core.InfoFingerprint(p.Info); ia != ifp {
				rec.Violation(t, "C05|"+name+"|types.Info", fmt.Sprintf("checker %s changed types.Info: %v -> %v", name, ifp, ia), oc)
				ifp = ia
			}
			if ca := core.ContextFingerprint(all.Ctx); ca != cfp {
				rec.Violation(t, "C05|"+name+"|context", fmt.Sprintf("checker %s changed the shared context:\n%s\n->\n%s", name, cfp, ca), oc)
				cfp = ca
			}
		}
	}
	if ra := core.RegistryFingerprint(); ra != regBefore {
		rec.Violation(t, "C05|registry", "registered checker metadata / parameter values changed:\n"+firstDiffLine(regBefore, ra), oc)
	}
	// consequence clause
	p2 := env.Load(pc.Files)
	if p2.OK() {
		for fi := range p2.Files {
			ds, _ := all.RunAll(p2, fi)
			names := make([]string, 0, len(ds))
			for n := range ds {
				names = append(names, n)
			}
			sort.Strings(names)
			for _, n := range names {
				want := toCmp(ds[n])
				got, ok := permuted[fi][n]
				if !ok {
					continue
				}
				if d := diffDiags(want, got); d != "" {
					rec.Violation(t, "C05|"+n+"|order-dependent",
						fmt.Sprintf("checker %s reports differently when run after other checkers on the same tree than on a pristine re-parse: %s (pristine first)", n, d), oc)
				}
			}
		}
	}
	rec.Sample("case", 3, progSample(pc, map[string]any{"order_head": head(order, 8)}))
}

func head(xs []int, n int) []int {
	if len(xs) > n {
		return xs[:n]
	}
	return xs
}

func firstDiffLine(a, b string) string {
	la, lb := strings.Split(a, "\n"), strings.Split(b, "\n")
	for i := 0; i < len(la) && i < len(lb); i++ {
		if la[i] != lb[i] {
			return "- " + la[i] + "\n+ " + lb[i]
		}
	}
	return "(length differs)"
}
