package props

import (
	"encoding/json"
	"fmt"
	"os"
	"path/filepath"
	"runtime"
	"sort"
	"strings"
	"sync"
	"testing"
	"time"

	"golang.org/x/tools/go/analysis"
	"pgregory.net/rapid"

	"github.com/go-critic/go-critic/checkers/analyzer"
	"github.com/go-critic/go-critic/linter"

	"verif/harness/core"
	"verif/harness/e2e"
	"verif/harness/gen"
)

var coldOnce sync.Once

type schedCase struct {
	Kind  string         `json:"kind"` // cli-replica | analyzer-parallel | e2e
	Progs []gen.ProgCase `json:"programs"`
	K     int            `json:"concurrency"`
	// ConcFirst (cli-replica): the concurrent batch runs on freshly bound checkers and the sequential
	// baseline afterwards, so that whatever is filled lazily on first use is filled concurrently
	ConcFirst bool `json:"concurrent_first,omitempty"`
	Order []int          `json:"start_order,omitempty"`
	WS    *e2e.Workspace `json:"workspace,omitempty"`
	Procs int            `json:"gomaxprocs,omitempty"`
}

func init() {
	register("C04", prop{
		Run: func(t *testing.T, rec *core.Recorder) {
			env, all := sharedEnv(t)
			check(t, func(rt *rapid.T) {
				defer env.Release()
				sc := &schedCase{}
				switch k := rapid.IntRange(0, 99).Draw(rt, "kind"); {
				case k < 55:
					sc.Kind = "cli-replica"
					var pc *gen.ProgCase
					switch w := rapid.IntRange(0, 9).Draw(rt, "wide"); {
					case w < 3:
						pc, _ = drawWideProgram(rt, env, rec)
					case w < 6:
						pc, _ = drawSharedFacilityProgram(rt, env, rec)
					}
					if pc == nil {
						_, pc = gen.DrawProgram(rt, env, gen.DrawOpts{FreshCorpus: true}, rejectCounter(rec))
					}
					sc.Progs = []gen.ProgCase{*pc}
					sc.K = pickInt(rt, "k", []int{1, 2, 3, 4, 8, 16, 64, runtime.GOMAXPROCS(0)})
					sc.Order = rapid.Permutation(seq(len(all.Checkers))).Draw(rt, "order")
					sc.ConcFirst = rapid.Bool().Draw(rt, "concFirst")
				case k < 90:
					sc.Kind = "analyzer-parallel"
					// passes over the same source (separately loaded) put the most pressure on anything the
					// checker instances of different passes share; independent sources vary the mix
					n := rapid.IntRange(2, 6).Draw(rt, "npasses")
					same := rapid.IntRange(0, 3).Draw(rt, "sameSource") // 0,1: all the same; 2: every other; 3: independent
					for i := 0; i < n; i++ {
						if i > 0 && (same <= 1 || (same == 2 && i%2 == 0)) {
							sc.Progs = append(sc.Progs, sc.Progs[0])
							continue
						}
						var pc *gen.ProgCase
						if rapid.IntRange(0, 9).Draw(rt, "wide") < 6 {
							pc, _ = drawWideProgram(rt, env, rec)
						}
						if pc == nil {
							_, pc = gen.DrawProgram(rt, env, gen.DrawOpts{FreshCorpus: true, MaxMuts: 1}, rejectCounter(rec))
						}
						sc.Progs = append(sc.Progs, *pc)
					}
				default:
					sc.Kind = "e2e"
					ws, _ := gen.DrawWorkspace(rt, gen.WSOpts{MaxPkgs: 2, Tests: true, Kernels: e2eKernels()})
					sc.WS = ws
					sc.K = pickInt(rt, "k", []int{2, 3, 16, 64})
					sc.Procs = pickInt(rt, "procs", []int{1, 2, 16})
				}
				core.WriteCurrent(sc)
				checkC04(rt, rec, env, all, sc)
			})
		},
		Replay: func(t *testing.T, rec *core.Recorder, raw json.RawMessage) {
			env, all := sharedEnv(t)
			var sc schedCase
			if err := json.Unmarshal(raw, &sc); err != nil {
				t.Fatal(err)
			}
			// schedule-dependent: repeat
			for i := 0; i < 5; i++ {
				checkC04(t, rec, env, all, &sc)
			}
		},
	})
}

// drawWideProgram renders one file with 24-40 kernels of consecutive checker families (start drawn):
// most checkers have work to do at the same time, so whatever their instances share is under
// concurrent use in every such case, not only when two drawn programs happen to meet.
func drawWideProgram(rt *rapid.T, env *gen.Env, rec *core.Recorder) (*gen.ProgCase, bool) {
	n := rapid.IntRange(24, 40).Draw(rt, "wideKernels")
	start := rapid.IntRange(0, len(gen.Kernels)-1).Draw(rt, "wideStart")
	ks := make([]gen.Kernel, 0, n)
	for i := 0; i < n; i++ {
		ks = append(ks, gen.Kernels[(start+i)%len(gen.Kernels)])
	}
	srcs := gen.KernelFileFor(rt, ks, false)
	p := env.Load(srcs)
	if !p.OK() {
		rec.Reject()
		rec.Count("rejected:wide-kernels")
		rec.Sample("rejected-by-typechecker", 2, map[string]string{"mutator": "wide-kernels", "why": p.ErrSummary()})
		return nil, false
	}
	rec.Count("wide-kernel-program")
	return &gen.ProgCase{Origin: "kernels", Files: srcs}, true
}

// drawSharedFacilityProgram renders 3-6 kernels of the checkers that consult facilities of the shared
// context which compute lazily (type sizes): several goroutines then ask the shared context about
// the same types at the same time, including types go/types cannot size.
func drawSharedFacilityProgram(rt *rapid.T, env *gen.Env, rec *core.Recorder) (*gen.ProgCase, bool) {
	pool := gen.KernelsFor("hugeParam", "rangeValCopy", "rangeExprCopy", "truncateCmp")
	n := rapid.IntRange(3, 6).Draw(rt, "facilityKernels")
	ks := make([]gen.Kernel, 0, n)
	for i := 0; i < n; i++ {
		ks = append(ks, pool[rapid.IntRange(0, len(pool)-1).Draw(rt, "facilityKernel")])
	}
	srcs := gen.KernelFileFor(rt, ks, false)
	p := env.Load(srcs)
	if !p.OK() {
		rec.Reject()
		rec.Count("rejected:shared-facility-kernels")
		return nil, false
	}
	rec.Count("shared-facility-program")
	return &gen.ProgCase{Origin: "kernels", Files: srcs}, true
}

func checkC04(t core.TB, rec *core.Recorder, env *gen.Env, all *core.Set, sc *schedCase) {
	rec.Eval()
	switch sc.Kind {
	case "cli-replica":
		checkCLIReplica(t, rec, env, all, sc)
	case "analyzer-parallel":
		checkAnalyzerParallel(t, rec, env, sc)
	case "e2e":
		checkSchedE2E(t, rec, env, sc)
	}
}

// checkCLIReplica replays cmd/go-critic/check.go:checkFile (one goroutine per checker, a
// semaphore of size k, disjoint result slots, a barrier) with a generated start order over the
// long-lived checker set, under the race detector, and compares with the sequential run.
func checkCLIReplica(t core.TB, rec *core.Recorder, env *gen.Env, all *core.Set, sc *schedCase) {
	p := env.Load(sc.Progs[0].Files)
	if !p.OK() {
		rec.Reject()
		return
	}
	order := sc.Order
	if len(order) != len(all.Checkers) {
		order = seq(len(all.Checkers))
	}
	k := sc.K
	if k < 1 {
		k = 1
	}
	fired := 0
	for fi, f := range p.Files {
		all.BindPackage(p)
		all.BindFile(p, fi)
		seqRes := make([][]cmpDiag, len(all.Checkers))
		crashed := false
		sequential := func() {
			for i, c := range all.Checkers {
				ws, cr := core.RunOne(c, f)
				if cr != nil {
					crashed = true // C01's subject
					return
				}
				seqRes[i] = toCmp(core.DiagsOf(p.Fset, c.Info.Name, ws))
				if len(ws) > 0 {
					fired++
				}
			}
		}
		if !sc.ConcFirst {
			sequential()
			if crashed {
				return
			}
		}
		conc := make([][]linter.Warning, len(all.Checkers))
		sema := make(chan struct{}, k)
		var wg sync.WaitGroup
		wg.Add(len(order))
		for _, i := range order {
			i := i
			c := all.Checkers[i]
			sema <- struct{}{}
			go func() {
				defer func() {
					recover()
					wg.Done()
					<-sema
				}()
				conc[i] = append(conc[i], c.Check(f)...)
			}()
		}
		wg.Wait()
		if sc.ConcFirst {
			all.BindPackage(p)
			all.BindFile(p, fi)
			sequential()
			if crashed {
				return
			}
		}
		for i, c := range all.Checkers {
			got := toCmp(core.DiagsOf(p.Fset, c.Info.Name, conc[i]))
			if d := diffDiags(seqRes[i], got); d != "" {
				rec.Violation(t, "C04|"+c.Info.Name+"|differs-from-sequential",
					fmt.Sprintf("checker %s, concurrency %d: concurrent run differs from the sequential one: %s", c.Info.Name, k, d), sc)
			}
		}
	}
	if fired >= 2 && k >= 2 {
		rec.Nontrivial("cli-replica", sc.Progs[0].Key(), fmt.Sprint(k), fmt.Sprint(head(order, 6)))
		rec.Sample("cli-replica", 2, map[string]any{"origin": sc.Progs[0].Origin, "concurrency": k, "checkers_with_diagnostics": fired})
	}
	rec.Count("cli-replica")
}

// checkAnalyzerParallel: N goroutines call analyzer.Analyzer.Run with distinct passes
// concurrently (cache enabled), as multichecker / unitchecker drivers do.
func checkAnalyzerParallel(t core.TB, rec *core.Recorder, env *gen.Env, sc *schedCase) {
	flagMu.Lock()
	defer flagMu.Unlock()
	fs := &analyzer.Analyzer.Flags
	// every pass constructs its own checkers; the 40 rule-based ones cost ~17 ms each (x4 under the
	// race detector), so the parallel driver runs all hand-written checkers plus a few rule groups
	if f := fs.Lookup("enable"); f != nil && !strings.Contains(f.Value.String(), "appendAssign") {
		var names []string
		for _, in := range core.HandWritten() {
			if in.Name != "ruleguard" {
				names = append(names, in.Name)
			}
		}
		names = append(names, "assignOp", "wrapperFunc", "sloppyLen", "stringXbytes")
		fs.Set("enable", strings.Join(names, ","))
		fs.Set("disable", "")
	}
	var progs []*core.Program
	for _, pc := range sc.Progs {
		p := env.Load(pc.Files)
		if !p.OK() {
			rec.Reject()
			return
		}
		progs = append(progs, p)
	}
	run := func(p *core.Program) ([]string, error) {
		var mu sync.Mutex
		var out []string
		pass := &analysis.Pass{
			Analyzer: analyzer.Analyzer, Fset: p.Fset, Files: p.Files, Pkg: p.Pkg, TypesInfo: p.Info, TypesSizes: core.Sizes,
			Report: func(d analysis.Diagnostic) {
				pos := p.Fset.Position(d.Pos)
				s := fmt.Sprintf("%s:%d:%d: %s", filepath.Base(pos.Filename), pos.Line, pos.Column, d.Message)
				for _, sf := range d.SuggestedFixes {
					for _, te := range sf.TextEdits {
						s += fmt.Sprintf(" [%d-%d %q]", te.Pos, te.End, te.NewText)
					}
				}
				mu.Lock()
				out = append(out, s)
				mu.Unlock()
			},
			ResultOf: map[*analysis.Analyzer]interface{}{},
		}
		var err error
		func() {
			defer func() {
				if r := recover(); r != nil {
					err = fmt.Errorf("panic: %v", r)
				}
			}()
			_, err = analyzer.Analyzer.Run(pass)
		}()
		sort.Strings(out)
		return out, err
	}
	parallel := func() ([][]string, []error) {
		got := make([][]string, len(progs))
		errs := make([]error, len(progs))
		var wg sync.WaitGroup
		start := make(chan struct{})
		for i := range progs {
			wg.Add(1)
			go func(i int) {
				defer wg.Done()
				<-start
				got[i], errs[i] = run(progs[i])
			}(i)
		}
		close(start)
		wg.Wait()
		return got, errs
	}
	// the very first use of the analyzer in this process is parallel: the cached configuration
	// is initialised while several passes are entering (a cold cache)
	coldOnce.Do(func() {
		parallel()
		rec.Count("analyzer-cold-start-parallel")
	})
	want := make([][]string, len(progs))
	for i, p := range progs {
		w, err := run(p)
		if err != nil {
			rec.Count("analyzer-sequential-error")
			return
		}
		want[i] = w
	}
	for round := 0; round < 2; round++ {
		got, errs := parallel()
		for i := range progs {
			if errs[i] != nil {
				rec.Violation(t, "C04|analyzer|parallel-pass-failed", fmt.Sprintf("pass %d failed when run in parallel: %v", i, errs[i]), sc)
				continue
			}
			onlyWant, onlyGot := diffKeys(want[i], got[i])
			if len(onlyWant) > 0 || len(onlyGot) > 0 {
				name := "?"
				if len(onlyWant) > 0 {
					name = checkerOfKey(onlyWant[0])
				} else {
					name = checkerOfKey(onlyGot[0])
				}
				rec.Violation(t, "C04|analyzer|"+name+"|differs-from-sequential",
					fmt.Sprintf("pass %d of %d parallel passes differs from its sequential result: missing %v extra %v", i, len(progs), trimLines(onlyWant, 3), trimLines(onlyGot, 3)), sc)
			}
		}
	}
	total := 0
	for _, w := range want {
		total += len(w)
	}
	if total > 0 {
		var sb strings.Builder
		for _, pc := range sc.Progs {
			sb.WriteString(pc.Key())
		}
		rec.Nontrivial("analyzer-parallel", sb.String())
		rec.Sample("analyzer-parallel", 2, map[string]any{"passes": len(progs), "diagnostics": total})
	}
	rec.Count("analyzer-parallel")
}

// checkSchedE2E: the -race build of the CLI with several -concurrency values and GOMAXPROCS
// settings prints the same lines as -concurrency=1 and no race report.
func checkSchedE2E(t core.TB, rec *core.Recorder, env *gen.Env, sc *schedCase) {
	bin := e2e.Bin("go-critic-race")
	if _, err := os.Stat(bin); err != nil {
		rec.Count("e2e-skipped-no-race-binary")
		return
	}
	c16Counter++
	root := filepath.Join(env.Work, fmt.Sprintf("c04-%d", c16Counter))
	os.RemoveAll(root)
	if err := sc.WS.Materialize(root); err != nil {
		rec.Inconclusive("C04 materialize: " + err.Error())
		return
	}
	defer os.RemoveAll(root)
	if _, err := (&wsRun{Root: root, WS: sc.WS}).expect(env, runCfg{Sel: selection{HasEnable: true, Enable: []string{"dupSubExpr"}}, CheckTests: true, CheckGenerated: true}); err != nil {
		rec.Reject()
		return
	}
	run := func(k, procs int) (e2e.Result, []string) {
		args := []string{"check", "-enableAll", fmt.Sprintf("-concurrency=%d", k), "./..."}
		res := e2e.Run(bin, args, root, e2e.BaseEnv(fmt.Sprintf("GOMAXPROCS=%d", procs), "GORACE=halt_on_error=0"), 5*time.Minute)
		lines, _ := e2e.ParseLines(res.Out)
		return res, e2e.SortedKeys(lines)
	}
	base, want := run(1, 1)
	if base.TimedOut {
		rec.Inconclusive("C04 e2e: timed out")
		return
	}
	res, got := run(sc.K, sc.Procs)
	if res.TimedOut {
		rec.Inconclusive("C04 e2e: timed out")
		return
	}
	for _, r := range []e2e.Result{base, res} {
		if strings.Contains(r.Out, "WARNING: DATA RACE") {
			rec.Violation(t, "C04|cli|race|"+raceFrames(r.Out), fmt.Sprintf("race detector report from %s:\n%s", r.Cmd, indentOut(r.Out, 60)), sc)
			return
		}
	}
	missing, extra := diffKeys(want, got)
	if len(missing) > 0 || len(extra) > 0 {
		rec.Violation(t, "C04|cli|differs-from-sequential", fmt.Sprintf("-concurrency=%d GOMAXPROCS=%d differs from -concurrency=1: missing %v extra %v", sc.K, sc.Procs, trimLines(missing, 3), trimLines(extra, 3)), sc)
	}
	if len(want) > 0 {
		rec.Nontrivial("e2e", fmt.Sprint(sc.WS.Files), fmt.Sprint(sc.K, sc.Procs))
		rec.Sample("e2e", 2, map[string]any{"cmd": res.Cmd, "gomaxprocs": sc.Procs, "lines": len(got)})
	}
	rec.Count("e2e")
}

func raceFrames(out string) string {
	var fr []string
	seen := map[string]bool{}
	for _, l := range strings.Split(out, "\n") {
		l = strings.TrimSpace(l)
		if strings.HasPrefix(l, "github.com/go-critic/go-critic/") {
			f := strings.TrimPrefix(l, "github.com/go-critic/go-critic/")
			if i := strings.IndexByte(f, '('); i > 0 {
				f = f[:strings.LastIndexByte(f, '(')]
			}
			if !seen[f] {
				seen[f] = true
				fr = append(fr, f)
			}
		}
		if len(fr) >= 2 {
			break
		}
	}
	sort.Strings(fr)
	return strings.Join(fr, "|")
}
