package props

import (
	"encoding/json"
	"fmt"
	"os"
	"path/filepath"
	"sort"
	"strings"
	"testing"
	"time"

	"pgregory.net/rapid"

	"github.com/go-critic/go-critic/linter"

	"verif/harness/core"
	"verif/harness/e2e"
	"verif/harness/gen"
)

type selCase struct {
	FrontEnd string            `json:"front_end"` // go-critic | gocritic | go-critic-analysis
	Sel      selection         `json:"selection"`
	Inert    map[string]string `json:"params_of_unselected_checkers,omitempty"`
	WS       *e2e.Workspace    `json:"workspace"`
	Focus    string            `json:"focus,omitempty"`
}

func init() {
	register("C06", prop{
		Run: func(t *testing.T, rec *core.Recorder) {
			env, _ := sharedEnv(t)
			checkDefaultSetsAgree(t, rec, env)
			checkParamCellsIndependent(t, rec, "C06")
			check(t, func(rt *rapid.T) {
				defer env.Release()
				sc := drawSelCase(rt)
				checkC06(rt, rec, env, sc)
			})
		},
		Replay: func(t *testing.T, rec *core.Recorder, raw json.RawMessage) {
			env, _ := sharedEnv(t)
			var sc selCase
			if err := json.Unmarshal(raw, &sc); err != nil || sc.WS == nil {
				checkDefaultSetsAgree(t, rec, env)
				checkParamCellsIndependent(t, rec, "C06")
				return
			}
			checkC06(t, rec, env, &sc)
		},
	})
}

var allTags = []string{"diagnostic", "style", "performance", "experimental", "opinionated", "security"}

func drawList(rt *rapid.T, label string, focus *linter.CheckerInfo, byName, byTag bool) []string {
	var out []string
	reg := core.Registry()
	n := rapid.IntRange(0, 4).Draw(rt, label+"-n")
	for i := 0; i < n; i++ {
		switch rapid.IntRange(0, 5).Draw(rt, label+"-kind") {
		case 0, 1:
			out = append(out, reg[rapid.IntRange(0, len(reg)-1).Draw(rt, label+"-name")].Name)
		case 2:
			out = append(out, "#"+allTags[rapid.IntRange(0, len(allTags)-1).Draw(rt, label+"-tag")])
		case 3:
			out = append(out, pickT(rt, label+"-unknown", []string{"nosuchchecker", "#nosuchtag", "appendassign", "#Diagnostic", "#", "ruleguard2",
				// a tag spelled as a name and a name spelled as a tag are unknown entries too
				"diagnostic", "style", "experimental", "performance", "opinionated", "#appendAssign", "#hugeParam", "#dupSubExpr", "#assignOp"}))
		case 4:
			out = append(out, "")
		case 5:
			if len(out) > 0 {
				out = append(out, out[0]) // duplicate
			}
		}
	}
	if focus != nil {
		if byName {
			out = append(out, focus.Name)
		}
		if byTag && len(focus.Tags) > 0 {
			out = append(out, "#"+focus.Tags[rapid.IntRange(0, len(focus.Tags)-1).Draw(rt, label+"-focustag")])
		}
	}
	return out
}

func drawSelCase(rt *rapid.T) *selCase {
	sc := &selCase{}
	sc.FrontEnd = pickT(rt, "frontend", []string{"go-critic", "gocritic", "go-critic-analysis"})
	reg := core.Registry()
	// systematic part: one focus checker with its own combination of the five booleans
	focus := reg[rapid.IntRange(0, len(reg)-1).Draw(rt, "focus")]
	sc.Focus = focus.Name
	nameE, tagE, nameD, tagD := rapid.Bool().Draw(rt, "nameE"), rapid.Bool().Draw(rt, "tagE"), rapid.Bool().Draw(rt, "nameD"), rapid.Bool().Draw(rt, "tagD")
	sc.Sel.EnableAll = rapid.IntRange(0, 3).Draw(rt, "enableAll") == 0
	sc.Sel.HasEnable = rapid.IntRange(0, 4).Draw(rt, "hasEnable") != 0
	sc.Sel.HasDis = rapid.IntRange(0, 3).Draw(rt, "hasDisable") != 0
	if sc.Sel.HasEnable {
		sc.Sel.Enable = drawList(rt, "enable", focus, nameE, tagE)
	}
	if sc.Sel.HasDis {
		sc.Sel.Disable = drawList(rt, "disable", focus, nameD, tagD)
	}
	// parameters for checkers that will NOT be selected: they must be inert
	sc.Inert = map[string]string{}
	eff := sc.effective()
	if !specRuns(core.InfoByName("ruleguard"), eff) && rapid.Bool().Draw(rt, "bogusRuleguard") {
		if rapid.Bool().Draw(rt, "bogusRules") {
			sc.Inert["ruleguard.rules"] = "/nonexistent/verif-rules-*.go"
		} else {
			sc.Inert["ruleguard.failOn"] = "bogus"
			sc.Inert["ruleguard.rules"] = "/nonexistent/x.go"
		}
	}
	// any registered parameter of a checker outside the selection, with a value of its type
	var inertKeys []string
	for _, in := range reg {
		if in.Name == "ruleguard" || specRuns(in, eff) {
			continue
		}
		for pn := range in.Params {
			inertKeys = append(inertKeys, in.Name+"."+pn)
		}
	}
	sort.Strings(inertKeys)
	for n := rapid.IntRange(0, 4).Draw(rt, "ninert"); n > 0 && len(inertKeys) > 0; n-- {
		key := inertKeys[rapid.IntRange(0, len(inertKeys)-1).Draw(rt, "inertKey")]
		name := key[:strings.IndexByte(key, '.')]
		switch v := core.InfoByName(name).Params[key[len(name)+1:]].Value.(type) {
		case int:
			sc.Inert[key] = pickT(rt, "inertInt", []string{"0", "1", "2", "1000"})
		case bool:
			sc.Inert[key] = fmt.Sprint(!v)
		}
	}
	ws, _ := gen.DrawWorkspace(rt, gen.WSOpts{MaxPkgs: 1, Kernels: e2eKernels()})
	sc.WS = ws
	return sc
}

// effective returns the selection as the named front-end interprets absent flags
// (the analyzer's documented defaults differ from the CLI's).
func (sc *selCase) effective() selection {
	sel := sc.Sel
	if strings.HasSuffix(sc.FrontEnd, "-analysis") {
		if !sel.HasEnable {
			sel.HasEnable, sel.Enable = true, []string{"#diagnostic", "#style", "#security"}
		}
		if !sel.HasDis {
			sel.HasDis = true
			if sel.EnableAll {
				sel.Disable = []string{""}
			} else {
				sel.Disable = []string{"#experimental", "#opinionated", "#performance"}
			}
		}
	}
	return sel
}

func parseEnabled(out string) []string {
	var names []string
	for _, l := range strings.Split(out, "\n") {
		l = strings.TrimSpace(l)
		if i := strings.Index(l, "debug: "); i >= 0 && strings.HasSuffix(l, " is enabled") {
			names = append(names, strings.TrimSuffix(l[i+len("debug: "):], " is enabled"))
		}
	}
	sort.Strings(names)
	return names
}

func runSelection(fe string, sel selection, hasEnable, hasDis bool, extra []string, dir string) e2e.Result {
	var args []string
	if strings.HasSuffix(fe, "-analysis") {
		if sel.EnableAll {
			args = append(args, "-enable-all")
		}
		if hasEnable {
			args = append(args, "-enable="+strings.Join(sel.Enable, ","))
		}
		if hasDis {
			args = append(args, "-disable="+strings.Join(sel.Disable, ","))
		}
		args = append(args, "-debug-init")
	} else {
		args = append(args, "check")
		if sel.EnableAll {
			args = append(args, "-enableAll")
		}
		if hasEnable {
			args = append(args, "-enable="+strings.Join(sel.Enable, ","))
		}
		if hasDis {
			args = append(args, "-disable="+strings.Join(sel.Disable, ","))
		}
		args = append(args, "-v", "-shorterErrLocation=false")
	}
	args = append(args, extra...)
	args = append(args, "./...")
	return e2e.Run(e2e.Bin(fe), args, dir, e2e.BaseEnv(), 3*time.Minute)
}

// checkDefaultSetsAgree: with no flags the three front-ends enable exactly the checkers without
// the experimental, opinionated, performance or security tag.
func checkDefaultSetsAgree(t core.TB, rec *core.Recorder, env *gen.Env) {
	if e2e.BinDir() == "" {
		return
	}
	root := filepath.Join(env.Work, "c06-default")
	os.RemoveAll(root)
	(&e2e.Workspace{Files: []e2e.File{{Path: "a/a.go", Text: "package a\n"}}}).Materialize(root)
	defer os.RemoveAll(root)
	var want []string
	for _, in := range core.Registry() {
		if defaultEnabled(in) {
			want = append(want, in.Name)
		}
	}
	sort.Strings(want)
	for _, fe := range []string{"go-critic", "gocritic", "go-critic-analysis", "gocritic-analysis"} {
		rec.Eval()
		res := runSelection(fe, selection{}, false, false, nil, root)
		got := parseEnabled(res.Out)
		rec.Nontrivial("default-set", fe)
		onlyWant, onlyGot := diffKeys(want, got)
		if len(onlyWant) > 0 || len(onlyGot) > 0 {
			rec.Violation(t, "C06|"+fe+"|default",
				fmt.Sprintf("%s with no flags enables %d checkers, the rule says %d; missing %v; extra %v\n%s", fe, len(got), len(want), trimLines(onlyWant, 6), trimLines(onlyGot, 6), indentOut(res.Out, 8)),
				map[string]string{"clause": "default", "front_end": fe})
		}
	}
}

// checkParamCellsIndependent: a parameter of one checker is a cell of its own. The front-ends
// write flag values into the registered cells of checkers whether or not they are selected, so a
// cell shared by two checkers lets the parameter of an unselected checker configure a selected one.
// Every registered parameter is changed in turn (and restored); no other parameter may move.
func checkParamCellsIndependent(t core.TB, rec *core.Recorder, id string) {
	type cell struct {
		key string
		p   *linter.CheckerParam
	}
	var cells []cell
	for _, in := range core.Registry() {
		names := make([]string, 0, len(in.Params))
		for n := range in.Params {
			names = append(names, n)
		}
		sort.Strings(names)
		for _, n := range names {
			cells = append(cells, cell{in.Name + "." + n, in.Params[n]})
		}
	}
	snapshot := func() []interface{} {
		out := make([]interface{}, len(cells))
		for i, c := range cells {
			out[i] = c.p.Value
		}
		return out
	}
	for i, c := range cells {
		rec.Eval()
		before := snapshot()
		old := c.p.Value
		switch v := old.(type) {
		case bool:
			c.p.Value = !v
		case int:
			c.p.Value = v + 12345
		case string:
			c.p.Value = v + "#verif"
		default:
			continue
		}
		after := snapshot()
		c.p.Value = old
		rec.Nontrivial("param-cell", c.key)
		for j := range cells {
			if j != i && before[j] != after[j] {
				rec.Violation(t, id+"|param-cell-shared|"+c.key+"~"+cells[j].key,
					fmt.Sprintf("setting %s also changes %s (%v -> %v): a parameter given to an unselected checker is not inert", c.key, cells[j].key, before[j], after[j]),
					map[string]string{"clause": "param-cells"})
			}
		}
	}
}

func checkC06(t core.TB, rec *core.Recorder, env *gen.Env, sc *selCase) {
	rec.Eval()
	if e2e.BinDir() == "" {
		rec.Inconclusive("C06 needs VERIF_BIN")
		return
	}
	c16Counter++
	root := filepath.Join(env.Work, fmt.Sprintf("c06-%d", c16Counter))
	os.RemoveAll(root)
	if err := sc.WS.Materialize(root); err != nil {
		rec.Inconclusive("C06 materialize: " + err.Error())
		return
	}
	defer os.RemoveAll(root)
	if _, err := (&wsRun{Root: root, WS: sc.WS}).expect(env, runCfg{Sel: selection{HasEnable: true, Enable: []string{"dupSubExpr"}}, CheckTests: true, CheckGenerated: true}); err != nil {
		rec.Reject() // generated workspace is not well-typed: outside the domain
		rec.Count("workspace-rejected")
		return
	}
	eff := sc.effective()
	var want []string
	for _, in := range core.Registry() {
		if specRuns(in, eff) {
			want = append(want, in.Name)
		}
	}
	sort.Strings(want)
	res := runSelection(sc.FrontEnd, sc.Sel, sc.Sel.HasEnable, sc.Sel.HasDis, paramArgs(sc.Inert), root)
	if res.TimedOut {
		rec.Inconclusive("C06: front-end timed out")
		return
	}
	fail := func(clause, msg string) {
		focus := core.InfoByName(sc.Focus)
		bools := ""
		if focus != nil {
			bools = fmt.Sprintf("|focus-runs=%v", specRuns(focus, eff))
		}
		rec.Violation(t, "C06|"+sc.FrontEnd+"|"+clause+bools, fmt.Sprintf("%s\ncommand: %s\n%s", msg, res.Cmd, indentOut(res.Out, 12)), sc)
	}
	if e2e.HasCrashTrace(res.Out) {
		fail("crash", "the front-end crashed")
		return
	}
	got := parseEnabled(res.Out)
	lines, _ := e2e.ParseLines(res.Out)
	if len(want) == 0 {
		// empty selection is an error
		if res.Exit == 0 || len(lines) > 0 {
			fail("empty-selection-not-an-error", fmt.Sprintf("the selection is empty but the front-end exited %d with %d diagnostic lines", res.Exit, len(lines)))
		} else if !strings.Contains(strings.ToLower(res.Out), "empty") && !strings.Contains(strings.ToLower(res.Out), "no checkers") {
			fail("empty-selection-message", "exit status is non-zero but the message does not name the empty selection")
		}
		rec.Count("empty-selection")
		rec.Nontrivial(fmt.Sprint(sc.Sel), sc.FrontEnd)
		return
	}
	onlyWant, onlyGot := diffKeys(want, got)
	if len(onlyWant) > 0 || len(onlyGot) > 0 {
		if len(got) == 0 && res.Exit != 0 {
			// initialisation failed although the selection is non-empty: the only legitimate reason
			// would be a parameter of a SELECTED checker; we only set parameters of unselected ones
			fail("constructed-unselected", fmt.Sprintf("initialisation failed; parameters were only given to checkers outside the selection: %v", sc.Inert))
			return
		}
		fail("algebra", fmt.Sprintf("enabled set differs from the algebra: should run but does not %v; runs but should not %v (enable=%q disable=%q enableAll=%v)",
			trimLines(onlyWant, 6), trimLines(onlyGot, 6), strings.Join(sc.Sel.Enable, ","), strings.Join(sc.Sel.Disable, ","), sc.Sel.EnableAll))
	}
	wantSet := map[string]bool{}
	for _, n := range want {
		wantSet[n] = true
	}
	for _, l := range lines {
		if !wantSet[l.Checker] {
			fail("attribution", fmt.Sprintf("diagnostic attributed to %s which is not selected: %s", l.Checker, l.Key()))
			break
		}
	}
	// inert parameters, observed: the same run without them prints the same diagnostics
	if len(sc.Inert) > 0 {
		res0 := runSelection(sc.FrontEnd, sc.Sel, sc.Sel.HasEnable, sc.Sel.HasDis, nil, root)
		lines0, _ := e2e.ParseLines(res0.Out)
		if !res0.TimedOut {
			onlyWith, onlyWithout := diffKeys(e2e.SortedKeys(lines), e2e.SortedKeys(lines0))
			if len(onlyWith) > 0 || len(onlyWithout) > 0 || res.Exit != res0.Exit {
				fail("unselected-parameter-not-inert", fmt.Sprintf("parameters of unselected checkers %v change the output: only with them %v; only without %v; exit %d vs %d",
					sc.Inert, trimLines(onlyWith, 4), trimLines(onlyWithout, 4), res.Exit, res0.Exit))
			}
		}
	}
	// both halves of the algebra exercised?
	byTag, disabled := false, false
	for _, e := range eff.Enable {
		if strings.HasPrefix(e, "#") && len(e) > 1 {
			byTag = true
		}
	}
	for _, d := range eff.Disable {
		if d != "" {
			disabled = true
		}
	}
	if byTag && disabled && !eff.EnableAll || len(sc.Inert) > 0 {
		rec.Nontrivial(normSel(eff), sc.FrontEnd, fmt.Sprint(sc.Inert))
		rec.Sample("nontrivial", 4, map[string]any{"cmd": res.Cmd, "enabled": len(got), "diagnostic_lines": len(lines), "inert_params": sc.Inert})
	}
	rec.Count("frontend:" + sc.FrontEnd)
}

func normSel(s selection) string {
	e := append([]string{}, s.Enable...)
	d := append([]string{}, s.Disable...)
	sort.Strings(e)
	sort.Strings(d)
	return fmt.Sprint(s.EnableAll, s.HasEnable, e, s.HasDis, d)
}
