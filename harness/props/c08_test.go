package props

import (
	"encoding/json"
	"fmt"
	"go/ast"
	"os"
	"path/filepath"
	"sort"
	"strings"
	"testing"
	"time"

	"golang.org/x/tools/go/analysis"
	"pgregory.net/rapid"

	"github.com/go-critic/go-critic/checkers/analyzer"

	"verif/harness/core"
	"verif/harness/e2e"
	"verif/harness/gen"
)

type feCase struct {
	WS     *e2e.Workspace `json:"workspace"`
	Meta   *gen.WSMeta    `json:"meta"`
	Cfg    runCfg         `json:"config"`
	GoVer  string         `json:"go"`
	Params map[string]string
}

var frontEnds = []string{"go-critic", "gocritic", "go-critic-analysis", "gocritic-analysis"}

func init() {
	register("C08", prop{
		Run: func(t *testing.T, rec *core.Recorder) {
			env, _ := sharedEnv(t)
			// clause: the analyzer offers every checker the CLI offers (checked once per shard)
			checkOfferedCheckers(t, rec, env)
			check(t, func(rt *rapid.T) {
				defer env.Release()
				if rapid.IntRange(0, 3).Draw(rt, "inproc") == 0 {
					p, pc := gen.DrawProgram(rt, env, gen.DrawOpts{}, rejectCounter(rec))
					checkAnalyzerForwardsFixes(rt, rec, env, p, pc)
					return
				}
				fc := drawFECase(rt)
				checkC08(rt, rec, env, fc)
			})
		},
		Replay: func(t *testing.T, rec *core.Recorder, raw json.RawMessage) {
			env, _ := sharedEnv(t)
			var probe struct {
				WS *e2e.Workspace `json:"workspace"`
			}
			json.Unmarshal(raw, &probe)
			if probe.WS == nil {
				var pc gen.ProgCase
				if err := json.Unmarshal(raw, &pc); err == nil && len(pc.Files) > 0 {
					p := env.Load(pc.Files)
					if p.OK() {
						checkAnalyzerForwardsFixes(t, rec, env, p, &pc)
					}
					return
				}
				checkOfferedCheckers(t, rec, env)
				return
			}
			var fc feCase
			if err := json.Unmarshal(raw, &fc); err != nil {
				t.Fatal(err)
			}
			checkC08(t, rec, env, &fc)
		},
	})
}

func drawFECase(rt *rapid.T) *feCase {
	ws, meta := gen.DrawWorkspace(rt, gen.WSOpts{MaxPkgs: 3, Tests: true, Kernels: e2eKernels(), Shared: true})
	fc := &feCase{WS: ws, Meta: meta}
	fc.Cfg = runCfg{Sel: drawSelection(rt), CheckTests: true, CheckGenerated: true}
	if fc.Cfg.Sel.HasEnable && len(ws.Files) > 0 && ws.Files[0].Path == "shared/shared.go" {
		// the checkers the shared-package kernels are written for
		seen := map[string]bool{}
		for _, k := range gen.SharedUseKernels {
			if !seen[k.Checker] {
				seen[k.Checker] = true
				fc.Cfg.Sel.Enable = append(fc.Cfg.Sel.Enable, k.Checker)
			}
		}
	}
	// configurations expressible in both dialects give both lists explicitly
	if !fc.Cfg.Sel.EnableAll && !fc.Cfg.Sel.HasEnable {
		fc.Cfg.Sel = selection{HasEnable: true, Enable: []string{"#diagnostic", "#style", "#performance"}, HasDis: true, Disable: []string{"#experimental", "#opinionated", "#performance"}}
	}
	if rapid.IntRange(0, 2).Draw(rt, "withParams") == 0 {
		fc.Cfg.Params = map[string]string{}
		for k, v := range gen.DrawParams(rt) {
			fc.Cfg.Params[k] = v
		}
	}
	fc.Cfg.GoVersion = pickT(rt, "go", []string{"", "", "1.13", "1.16", "1.17", "1.18", "1.21", "go1.15"})
	return fc
}

// checkOfferedCheckers: `-enable-all -debug-init` of the analyzer lists the same checkers as the
// CLI's `-enableAll -v`.
func checkOfferedCheckers(t core.TB, rec *core.Recorder, env *gen.Env) {
	if e2e.BinDir() == "" {
		return
	}
	rec.Eval()
	ws := &e2e.Workspace{Files: []e2e.File{{Path: "a/a.go", Text: "package a\n"}}}
	root := filepath.Join(env.Work, "c08-offered")
	os.RemoveAll(root)
	ws.Materialize(root)
	defer os.RemoveAll(root)
	enabled := func(out string) []string {
		var names []string
		for _, l := range strings.Split(out, "\n") {
			l = strings.TrimSpace(l)
			// the analyzer logs with the default log prefix (date and time)
			if i := strings.Index(l, "debug: "); i >= 0 && strings.HasSuffix(l, " is enabled") {
				names = append(names, strings.TrimSuffix(l[i+len("debug: "):], " is enabled"))
			}
		}
		sort.Strings(names)
		return names
	}
	cli := e2e.Run(e2e.Bin("go-critic"), []string{"check", "-enableAll", "-v", "./..."}, root, e2e.BaseEnv(), 3*time.Minute)
	cliNames := enabled(cli.Out)
	for _, b := range []string{"go-critic-analysis", "gocritic-analysis"} {
		an := e2e.Run(e2e.Bin(b), []string{"-enable-all", "-debug-init", "./..."}, root, e2e.BaseEnv(), 3*time.Minute)
		anNames := enabled(an.Out)
		onlyCLI, onlyAn := diffKeys(cliNames, anNames)
		rec.Nontrivial("offered", b)
		rec.Sample("offered checkers", 1, map[string]any{"cli": len(cliNames), b: len(anNames)})
		if len(cliNames) == 0 {
			rec.Inconclusive("C08: could not read the CLI's enabled list: " + head200(cli.Out))
			return
		}
		if len(onlyCLI) > 0 || len(onlyAn) > 0 {
			rec.Violation(t, "C08|go-critic~"+b+"|offered-checkers",
				fmt.Sprintf("the CLI offers %d checkers, %s offers %d; only in CLI: %v; only in analyzer: %v", len(cliNames), b, len(anNames), trimLines(onlyCLI, 8), trimLines(onlyAn, 8)),
				map[string]string{"clause": "offered"})
		}
	}
}

func checkC08(t core.TB, rec *core.Recorder, env *gen.Env, fc *feCase) {
	rec.Eval()
	if e2e.BinDir() == "" {
		rec.Inconclusive("C08 needs VERIF_BIN")
		return
	}
	c16Counter++
	root := filepath.Join(env.Work, fmt.Sprintf("c08-%d", c16Counter), "ws")
	os.RemoveAll(filepath.Dir(root))
	if err := fc.WS.Materialize(root); err != nil {
		rec.Inconclusive("C08 materialize: " + err.Error())
		return
	}
	defer os.RemoveAll(filepath.Dir(root))
	if _, err := (&wsRun{Root: root, WS: fc.WS, Meta: fc.Meta}).expect(env, runCfg{Sel: selection{HasEnable: true, Enable: []string{"dupSubExpr"}}, CheckTests: true, CheckGenerated: true}); err != nil {
		rec.Reject() // not well-typed: outside the domain
		rec.Count("workspace-rejected")
		return
	}
	outs := map[string][]e2e.Line{}
	raw := map[string]e2e.Result{}
	for _, fe := range frontEnds {
		var args []string
		if strings.HasSuffix(fe, "-analysis") {
			args = append(args, fc.Cfg.Sel.analyzerArgs()...)
		} else {
			args = append(args, "check")
			args = append(args, fc.Cfg.Sel.cliArgs()...)
			args = append(args, "-checkTests=true", "-checkGenerated=true", "-shorterErrLocation=false")
		}
		if fc.Cfg.GoVersion != "" {
			args = append(args, "-go="+fc.Cfg.GoVersion)
		}
		args = append(args, paramArgs(fc.Cfg.Params)...)
		args = append(args, "./...")
		res := e2e.Run(e2e.Bin(fe), args, root, e2e.BaseEnv(), 3*time.Minute)
		raw[fe] = res
		if res.TimedOut {
			rec.Inconclusive("C08: " + fe + " timed out")
			return
		}
		if e2e.HasCrashTrace(res.Out) {
			rec.Violation(t, "C08|"+fe+"|crash", fmt.Sprintf("%s crashed:\n%s", res.Cmd, indentOut(res.Out, 25)), fc)
			return
		}
		lines, _ := e2e.ParseLines(res.Out)
		var kept []e2e.Line
		for i := range lines {
			lines[i].File = e2e.Expand(lines[i].Loc, root, "", "")
			if !filepath.IsAbs(lines[i].File) {
				lines[i].File = filepath.Join(root, lines[i].File)
			}
			if !strings.HasPrefix(lines[i].File, root+"/") {
				// a diagnostic for a file that is not part of the analysed packages
				rec.Violation(t, "C08|"+fe+"|"+lines[i].Checker+"|file-outside-the-packages",
					fmt.Sprintf("%s reports a diagnostic for a file that does not belong to the analysed packages: %s\ncommand: %s", fe, lines[i].Key(), res.Cmd), fc)
				continue
			}
			kept = append(kept, lines[i])
		}
		outs[fe] = kept
	}
	total := 0
	for _, fe := range frontEnds {
		total += len(outs[fe])
		keys := e2e.SortedKeys(outs[fe])
		for i := 1; i < len(keys); i++ {
			if keys[i] == keys[i-1] {
				name := checkerOfKey(keys[i])
				rec.Violation(t, "C08|"+fe+"|"+name+"|duplicate", fmt.Sprintf("%s printed a diagnostic twice: %s", fe, keys[i]), fc)
			}
		}
	}
	ref := frontEnds[0]
	rk := e2e.SortedKeys(outs[ref])
	for _, fe := range frontEnds[1:] {
		onlyRef, onlyFe := diffKeys(rk, e2e.SortedKeys(outs[fe]))
		if len(onlyRef) > 0 {
			rec.Violation(t, "C08|"+ref+"~"+fe+"|"+checkerOfKey(onlyRef[0])+"|missing",
				fmt.Sprintf("%s reports what %s does not: %v\n%s: %s\n%s: %s", ref, fe, trimLines(onlyRef, 5), ref, raw[ref].Cmd, fe, raw[fe].Cmd), fc)
		}
		if len(onlyFe) > 0 {
			rec.Violation(t, "C08|"+ref+"~"+fe+"|"+checkerOfKey(onlyFe[0])+"|extra",
				fmt.Sprintf("%s reports what %s does not: %v\n%s: %s\n%s: %s", fe, ref, trimLines(onlyFe, 5), ref, raw[ref].Cmd, fe, raw[fe].Cmd), fc)
		}
	}
	multi := len(fc.WS.PackageDirs()) >= 2 || len(fc.Meta.IsTest) > 0
	if total > 0 && multi {
		rec.Nontrivial(fmt.Sprint(fc.WS.Files), fmt.Sprint(fc.Cfg))
		rec.Sample("nontrivial", 3, map[string]any{"packages": fc.WS.PackageDirs(), "tests": len(fc.Meta.IsTest), "lines_per_front_end": len(outs[ref]), "cmd": raw[ref].Cmd, "cmd_analyzer": raw[frontEnds[2]].Cmd})
	}
	rec.CountN("diagnostic-lines", total)
}

func checkerOfKey(k string) string {
	parts := strings.SplitN(k, ": ", 3)
	if len(parts) >= 2 {
		return parts[1]
	}
	return "?"
}

// checkAnalyzerForwardsFixes runs analyzer.Analyzer.Run on an in-process analysis.Pass and
// compares with a direct linter run: same diagnostics, every Warning.Suggestion exactly one
// TextEdit with identical values.
func checkAnalyzerForwardsFixes(t core.TB, rec *core.Recorder, env *gen.Env, p *core.Program, pc *gen.ProgCase) {
	rec.Eval()
	flagMu.Lock()
	defer flagMu.Unlock()
	analyzer.DisableCache = true
	fs := &analyzer.Analyzer.Flags
	old := map[string]string{}
	for _, kv := range [][2]string{{"enable-all", "true"}, {"disable", ""}, {"go", ""}} {
		if f := fs.Lookup(kv[0]); f != nil {
			old[kv[0]] = f.Value.String()
			fs.Set(kv[0], kv[1])
		}
	}
	defer func() {
		for k, v := range old {
			fs.Set(k, v)
		}
		analyzer.DisableCache = false
	}()
	var got []analysis.Diagnostic
	pass := &analysis.Pass{
		Analyzer:   analyzer.Analyzer,
		Fset:       p.Fset,
		Files:      p.Files,
		Pkg:        p.Pkg,
		TypesInfo:  p.Info,
		TypesSizes: core.Sizes,
		Report:     func(d analysis.Diagnostic) { got = append(got, d) },
		ResultOf:   map[*analysis.Analyzer]interface{}{},
	}
	var runErr error
	func() {
		defer func() {
			if r := recover(); r != nil {
				runErr = fmt.Errorf("panic: %v", r)
			}
		}()
		_, runErr = analyzer.Analyzer.Run(pass)
	}()
	if runErr != nil {
		rec.Count("analyzer-run-error")
		return
	}
	// direct run with every registered checker
	set, err := core.NewSet(env.Fset, core.Registry())
	if err != nil {
		rec.Inconclusive("C08: " + err.Error())
		return
	}
	type key struct {
		pos        int
		msg        string
		from, to   int
		fix        string
		hasFix     bool
		nFixes     int
		nTextEdits int
	}
	var want, have []string
	nFix := 0
	for fi := range p.Files {
		set.BindPackage(p)
		// the analyzer passes the base name
		set.Ctx.SetFileInfo(filepath.Base(p.Names[fi]), p.Files[fi])
		for _, c := range set.Checkers {
			ws, cr := core.RunOne(c, p.Files[fi])
			if cr != nil {
				return
			}
			for _, w := range ws {
				k := key{pos: int(w.Pos), msg: c.Info.Name + ": " + w.Text}
				if w.HasQuickFix() {
					k.hasFix, k.from, k.to, k.fix, k.nFixes, k.nTextEdits = true, int(w.Suggestion.From), int(w.Suggestion.To), string(w.Suggestion.Replacement), 1, 1
					nFix++
				}
				want = append(want, fmt.Sprint(k))
			}
		}
	}
	for _, d := range got {
		k := key{pos: int(d.Pos), msg: d.Message, nFixes: len(d.SuggestedFixes)}
		if len(d.SuggestedFixes) > 0 {
			k.hasFix = true
			k.nTextEdits = len(d.SuggestedFixes[0].TextEdits)
			if k.nTextEdits > 0 {
				te := d.SuggestedFixes[0].TextEdits[0]
				k.from, k.to, k.fix = int(te.Pos), int(te.End), string(te.NewText)
			}
		}
		have = append(have, fmt.Sprint(k))
	}
	sort.Strings(want)
	sort.Strings(have)
	onlyWant, onlyHave := diffKeys(want, have)
	if len(onlyWant) > 0 || len(onlyHave) > 0 {
		clause := "diagnostics-differ"
		if len(want) == len(have) {
			clause = "fix-differs"
		}
		rec.Violation(t, "C08|analyzer-vs-linter|"+clause,
			fmt.Sprintf("analyzer.Run vs direct linter run: only linter %v; only analyzer %v", trimLines(onlyWant, 4), trimLines(onlyHave, 4)), pc)
	}
	if nFix > 0 {
		rec.Nontrivial("fixes", pc.Key())
		rec.Count("inproc-with-fixes")
	}
	_ = ast.File{}
}
