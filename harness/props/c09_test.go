package props

import (
	"encoding/json"
	"fmt"
	"go/ast"
	"go/parser"
	"go/token"
	"go/types"
	"regexp"
	"sort"
	"strings"
	"testing"

	"golang.org/x/tools/go/ast/astutil"
	"pgregory.net/rapid"

	"verif/harness/core"
	"verif/harness/gen"
)

func init() {
	register("C09", prop{
		Run: func(t *testing.T, rec *core.Recorder) {
			env, all := sharedEnv(t)
			check(t, func(rt *rapid.T) {
				defer env.Release()
				p, pc := gen.DrawProgram(rt, env, gen.DrawOpts{MaxMuts: 2, Mutators: []string{"parens", "respell-literal", "forward-multi", "bare-return", "zoo", "rename-to-stdpkg"}}, rejectCounter(rec))
				checkC09(rt, rec, env, all, p, pc)
			})
		},
		Replay: func(t *testing.T, rec *core.Recorder, raw json.RawMessage) {
			env, all := sharedEnv(t)
			var pc gen.ProgCase
			if err := json.Unmarshal(raw, &pc); err != nil {
				t.Fatal(err)
			}
			p := env.Load(pc.Files)
			if !p.OK() {
				t.Skipf("replay case is not well-typed any more: %s", p.ErrSummary())
			}
			checkC09(t, rec, env, all, p, &pc)
		},
	})
}

var reMark = regexp.MustCompile(`\bmark\(`)

func markers(s string) map[string]int {
	m := map[string]int{}
	for _, x := range reMark.FindAllString(s, -1) {
		m[x]++
	}
	return m
}

var (
	reErrPos    = regexp.MustCompile(`^[^ ]+\.go:\d+(?::\d+)?: `) // go/types omits the column when it is unknown
	reErrQuoted = regexp.MustCompile(`\b[a-z]\w*\d+\b`)
)

// typeErrClass turns a type error into a class: position dropped, generated identifiers
// (k12, vz300) normalised; "undefined: pkg" keeps the package name.
func typeErrClass(err error, b string) string {
	s := reErrPos.ReplaceAllString(err.Error(), "")
	s = firstLine(s)
	if strings.HasPrefix(s, "/") || strings.Contains(s, ".go:") {
		s = s[strings.LastIndex(s, ": ")+1:]
	}
	s = strings.TrimSpace(reErrQuoted.ReplaceAllString(s, "id"))
	// the suggested code names a package the file does not import (or that is shadowed there)
	for name := range stdShort {
		if strings.Contains(b, name+".") && (s == "undefined: "+name || strings.HasPrefix(s, name+".") && strings.Contains(s, "undefined")) {
			return "undefined: " + name
		}
	}
	if strings.HasPrefix(s, "undefined: ") {
		return "undefined: <ident>"
	}
	if strings.HasPrefix(s, "declared and not used") {
		return "declared and not used"
	}
	if i := strings.IndexAny(s, ":("); i > 0 && i < 60 {
		s = s[:i]
	}
	if len(s) > 60 {
		s = s[:60]
	}
	return strings.TrimSpace(s)
}

// typeStr renders a type canonically for comparison across two separately checked packages:
// parameter names are dropped (they are not part of type identity), named types are printed
// with their package name, untyped constants with their default type.
func typeStr(t types.Type) string {
	var sb strings.Builder
	writeType(&sb, t, 0)
	return sb.String()
}

func writeType(sb *strings.Builder, t types.Type, depth int) {
	if t == nil {
		sb.WriteString("<nil>")
		return
	}
	if depth > 8 {
		sb.WriteString("…")
		return
	}
	switch u := t.(type) {
	case *types.Basic:
		if u.Info()&types.IsUntyped != 0 {
			writeType(sb, types.Default(u), depth+1)
			return
		}
		sb.WriteString(u.Name())
	case *types.Named:
		if u.Obj().Pkg() != nil {
			sb.WriteString(u.Obj().Pkg().Name() + ".")
		}
		sb.WriteString(u.Obj().Name())
		if ta := u.TypeArgs(); ta != nil {
			sb.WriteString("[")
			for i := 0; i < ta.Len(); i++ {
				writeType(sb, ta.At(i), depth+1)
				sb.WriteString(",")
			}
			sb.WriteString("]")
		}
	case *types.Alias:
		writeType(sb, types.Unalias(u), depth+1)
	case *types.Pointer:
		sb.WriteString("*")
		writeType(sb, u.Elem(), depth+1)
	case *types.Slice:
		sb.WriteString("[]")
		writeType(sb, u.Elem(), depth+1)
	case *types.Array:
		fmt.Fprintf(sb, "[%d]", u.Len())
		writeType(sb, u.Elem(), depth+1)
	case *types.Map:
		sb.WriteString("map[")
		writeType(sb, u.Key(), depth+1)
		sb.WriteString("]")
		writeType(sb, u.Elem(), depth+1)
	case *types.Chan:
		fmt.Fprintf(sb, "chan(%d) ", u.Dir())
		writeType(sb, u.Elem(), depth+1)
	case *types.Signature:
		sb.WriteString("func(")
		for i := 0; i < u.Params().Len(); i++ {
			writeType(sb, u.Params().At(i).Type(), depth+1)
			sb.WriteString(",")
		}
		if u.Variadic() {
			sb.WriteString("...")
		}
		sb.WriteString(")(")
		for i := 0; i < u.Results().Len(); i++ {
			writeType(sb, u.Results().At(i).Type(), depth+1)
			sb.WriteString(",")
		}
		sb.WriteString(")")
	case *types.Tuple:
		sb.WriteString("(")
		for i := 0; i < u.Len(); i++ {
			writeType(sb, u.At(i).Type(), depth+1)
			sb.WriteString(",")
		}
		sb.WriteString(")")
	case *types.Struct:
		sb.WriteString("struct{")
		for i := 0; i < u.NumFields(); i++ {
			sb.WriteString(u.Field(i).Name() + " ")
			writeType(sb, u.Field(i).Type(), depth+1)
			sb.WriteString(";")
		}
		sb.WriteString("}")
	case *types.Interface:
		sb.WriteString("interface{")
		for i := 0; i < u.NumMethods(); i++ {
			sb.WriteString(u.Method(i).Name())
			writeType(sb, u.Method(i).Type(), depth+1)
			sb.WriteString(";")
		}
		sb.WriteString("}")
	case *types.TypeParam:
		sb.WriteString(u.Obj().Name())
	default:
		sb.WriteString(types.TypeString(t, func(p *types.Package) string { return p.Name() }))
	}
}

// exactExpr returns the expression node covering exactly [from,to) in file f of p.
func exactExpr(p *core.Program, fi int, from, to int) ast.Expr {
	f := p.Files[fi]
	tf := p.Fset.File(f.Pos())
	if from < 0 || to > tf.Size() || from >= to {
		return nil
	}
	path, _ := astutil.PathEnclosingInterval(f, tf.Pos(from), tf.Pos(to))
	var found ast.Expr
	for _, n := range path {
		a, b := p.Fset.PositionFor(n.Pos(), false).Offset, p.Fset.PositionFor(n.End(), false).Offset
		if a == from && b == to {
			if e, ok := n.(ast.Expr); ok {
				found = e
			}
		}
	}
	return found
}

func checkC09(t core.TB, rec *core.Recorder, env *gen.Env, all *core.Set, p *core.Program, pc *gen.ProgCase) {
	rec.Eval()
	for fi := range p.Files {
		diags, _ := all.RunAll(p, fi)
		names := make([]string, 0, len(diags))
		for n := range diags {
			names = append(names, n)
		}
		sort.Strings(names)
		src := p.Srcs[fi]
		for _, name := range names {
			ds := diags[name]
			for di, d := range ds {
				s, why := extractSuggestion(p, fi, name, d)
				if s == nil {
					if why != "no recipe" {
						rec.Count("not-checked:" + name + ":" + why)
					}
					continue
				}
				rec.Nontrivial(name, s.Origin, core.NormMsg(d.Text), shapeClass(s.A))
				rec.Count("suggestion:" + name + ":" + s.Origin)
				rec.Sample("suggestion:"+name, 1, map[string]string{"checker": name, "origin": s.Origin, "A": s.A, "B": s.B, "message": d.Text})
				fail := func(clause, msg string) {
					rec.Violation(t, "C09|"+name+"|"+s.Origin+"|"+clause,
						fmt.Sprintf("%s\nreplaces `%s` by `%s` (%s)\n%s", d.String(), s.A, s.B, s.Origin, msg), pc)
				}
				// (0) syntactic category of quoted code
				if s.Origin == "message" {
					if _, isExpr := s.Node.(ast.Expr); isExpr {
						if _, err := parser.ParseExpr(s.B); err != nil {
							fail("does-not-parse", "the proposed code does not parse as an expression: "+err.Error())
							continue
						}
					}
				}
				fixed := applySuggestion(src, s)
				// (1) the file still parses
				if _, err := parser.ParseFile(token.NewFileSet(), "x.go", fixed, parser.ParseComments); err != nil {
					fail("does-not-parse", "the file no longer parses: "+firstLine(err.Error()))
					continue
				}
				// (2) nothing unrelated is deleted
				before, after := markers(string(src)), markers(fixed)
				lost := ""
				for k, v := range before {
					if after[k] < v {
						lost = k
					}
				}
				if lost != "" {
					fail("marker-deleted", "applying it deletes the unrelated statement "+lost)
					continue
				}
				// (3) the file still type-checks
				srcs := append([]core.Source{}, pc.Files...)
				srcs[fi] = core.Source{Name: pc.Files[fi].Name, Text: fixed}
				p2 := env.LoadFixed(srcs)
				if len(p2.ParseErrs) > 0 {
					fail("does-not-parse", p2.ErrSummary())
					continue
				}
				if len(p2.TypeErrs) > 0 {
					fail("does-not-typecheck|"+typeErrClass(p2.TypeErrs[0], s.B), "after the edit: "+p2.ErrSummary())
					continue
				}
				// (4) the replaced expression keeps its type
				if e0, ok := s.Node.(ast.Expr); ok {
					if tv, ok := p.Info.Types[e0]; ok && (tv.IsValue() || tv.IsType()) {
						if e1 := exactExpr(p2, fi, s.From, s.From+len(s.B)); e1 != nil {
							if tv1, ok := p2.Info.Types[e1]; ok {
								t0, t1 := typeStr(tv.Type), typeStr(tv1.Type)
								if t0 != t1 {
									fail("type-changed", fmt.Sprintf("type of the replaced expression changes from %s to %s", t0, t1))
								}
							}
						}
					}
				}
				// (4b) a rewritten declaration keeps the function's type
				if fd, ok := s.Node.(*ast.FuncDecl); ok {
					if o0 := p.Info.Defs[fd.Name]; o0 != nil {
						off0 := p.Fset.PositionFor(fd.Pos(), false).Offset
						for _, d2 := range p2.Files[fi].Decls {
							fd2, ok := d2.(*ast.FuncDecl)
							if !ok || p2.Fset.PositionFor(fd2.Pos(), false).Offset != off0 {
								continue
							}
							if o1 := p2.Info.Defs[fd2.Name]; o1 != nil {
								if t0, t1 := typeStr(o0.Type()), typeStr(o1.Type()); t0 != t1 {
									fail("type-changed", fmt.Sprintf("type of the function changes from %s to %s", t0, t1))
								}
							}
						}
					}
				}
				// (5) re-analysis no longer reports that diagnostic at that place (machine fixes;
				// only when no other diagnostic of the checker overlaps the range)
				if s.Origin == "fix" {
					// nested matches (s[:][:]) legitimately re-create the diagnostic; an identical
					// fix on another diagnostic is no excuse
					overlap := false
					for dj, o := range ds {
						if dj != di && o.HasFix && o.FixFrom < s.To && s.From < o.FixTo && !(o.FixFrom == s.From && o.FixTo == s.To && o.Fix == s.B) {
							overlap = true
						}
					}
					if !overlap {
						set, err := core.NewSet(env.Fset, infosByName(name))
						if err == nil {
							ds2, _ := set.RunAll(p2, fi)
							// where the diagnostic would be after the edit
							newOff := d.Offset
							if d.Offset >= s.To {
								newOff += len(s.B) - (s.To - s.From)
							}
							for _, o := range ds2[name] {
								if o.Offset == newOff && o.Text == d.Text {
									fail("repeats", "re-analysing the fixed file reports the same diagnostic at the same place")
								}
							}
						}
					}
				}
			}
		}
	}
}

func firstLine(s string) string {
	if i := strings.IndexByte(s, '\n'); i >= 0 {
		return s[:i]
	}
	return s
}

// shapeClass abstracts operand shapes: identifiers -> x, literals -> 1.
func shapeClass(a string) string {
	var sb strings.Builder
	prev := byte(0)
	for i := 0; i < len(a) && sb.Len() < 40; i++ {
		c := a[i]
		var out byte
		switch {
		case c >= 'a' && c <= 'z' || c >= 'A' && c <= 'Z' || c == '_':
			out = 'x'
		case c >= '0' && c <= '9':
			out = '1'
		case c == ' ' || c == '\n' || c == '\t':
			continue
		default:
			out = c
		}
		if (out == 'x' || out == '1') && (prev == 'x' || prev == '1') {
			continue
		}
		sb.WriteByte(out)
		prev = out
	}
	return sb.String()
}
