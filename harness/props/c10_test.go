package props

import (
	"encoding/json"
	"fmt"
	"go/ast"
	"go/types"
	"sort"
	"strings"
	"testing"
	"time"

	"pgregory.net/rapid"

	"verif/harness/core"
	"verif/harness/gen"
	"verif/harness/xrun"
)

// equivalenceFamilies: checkers whose diagnostics state that code can be rewritten without
// changing meaning (the list of the C10 statement).
var equivalenceFamilies = map[string]bool{
	"boolExprSimplify": true, "assignOp": true, "emptyStringTest": true, "stringXbytes": true, "sloppyLen": true,
	"unslice": true, "underef": true, "unlambda": true, "deferUnlambda": true, "redundantSprint": true,
	"valSwap": true, "switchTrue": true, "wrapperFunc": true, "yodaStyleExpr": true, "stringsCompare": true,
	"newDeref": true, "timeExprSimplify": true, "stringConcatSimplify": true,
}

// execCase: a batch of instantiated kernels.
type execCase struct {
	Funcs []execFunc `json:"funcs"`
}

type execFunc struct {
	Family     string   `json:"family"`
	Body       string   `json:"body"`
	Focus      []string `json:"focus"`
	NoZeroUint bool     `json:"no_zero_uint,omitempty"`
	AsVar      bool     `json:"as_package_level_func_literal,omitempty"`
}

func init() {
	register("C10", prop{
		Run: func(t *testing.T, rec *core.Recorder) {
			env, all := sharedEnv(t)
			check(t, func(rt *rapid.T) {
				defer env.Release()
				ec := &execCase{}
				n := rapid.IntRange(4, 10).Draw(rt, "nkernels")
				for i := 0; i < n; i++ {
					k := gen.ExecKernels[rapid.IntRange(0, len(gen.ExecKernels)-1).Draw(rt, "kernel")]
					ec.Funcs = append(ec.Funcs, execFunc{Family: k.Family, Body: gen.InstantiateExec(rt, k.Body), Focus: k.Focus, NoZeroUint: k.NoZeroUint,
						AsVar: rapid.IntRange(0, 3).Draw(rt, "asVar") == 0})
				}
				checkC10(rt, rec, env, all, ec)
			})
		},
		Replay: func(t *testing.T, rec *core.Recorder, raw json.RawMessage) {
			env, all := sharedEnv(t)
			var ec execCase
			if err := json.Unmarshal(raw, &ec); err != nil {
				t.Fatal(err)
			}
			checkC10(t, rec, env, all, &ec)
		},
	})
}

// grids of the compile-and-run oracle (documented in DESIGN.md 2.4).
var execGrids = map[string]string{
	"a": "gridInt", "b": "gridInt", "c": "gridInt", "u": "gridUint", "v": "gridUint", "f": "gridFloat", "g": "gridFloat",
	"s": "gridStr", "t": "gridStr", "p": "gridBool", "q": "gridBool", "bs": "gridBytes", "cs": "gridBytes", "xs": "gridInts",
}

const execDriverHeader = `
var (
	gridInt   = []int{-3, -2, -1, 0, 1, 2, 3, 4, 5, 6, 7, 8, 9, 10, 11, 12, 63, 64, 65, 100, 1000}
	gridUint  = []uint{0, 1, 2, 3, 4, 5, 6, 7, 8, 9, 10, 11, 12, 64, 100}
	gridUintNZ = []uint{1, 2, 3, 4, 5, 6, 7, 8, 9, 10, 11, 12, 64, 100}
	gridFloat = []float64{nan(), inf(1), inf(-1), 0, negZero(), 0.5, -0.5, 1, -1, 1.5, 2, 8, 9, 10}
	gridStr   = []string{"", "a", "ab", "aB", "é", "a b", "ba", "b"}
	gridBool  = []bool{false, true}
	gridBytes = [][]byte{nil, {}, []byte("a"), []byte("ab"), []byte("b")}
	gridInts  = [][]int{nil, {}, {1}, {1, 2, 3}}
	mismatches int
)

func nan() float64        { z := 0.0; return z / z }
func inf(s int) float64   { z := 0.0; return float64(s) / z }
func negZero() float64    { z := 0.0; return -z }
func cloneB(b []byte) []byte { if b == nil { return nil }; return append([]byte{}, b...) }
func cloneI(b []int) []int   { if b == nil { return nil }; return append([]int{}, b...) }

func capture(fn func() (int, string, bool, float64)) (out string) {
	trace = trace[:0]
	defer func() {
		if e := recover(); e != nil {
			out = fmt.Sprintf("panic(%v) trace=%v", e, trace)
		}
	}()
	r0, r1, r2, r3 := fn()
	return fmt.Sprintf("%d|%q|%v|%v trace=%v", r0, r1, r2, r3, trace)
}

func report(id int, args string, o, n string) {
	if mismatches < 400 {
		fmt.Printf("MISMATCH\t%d\t%s\t%s\t%s\n", id, args, o, n)
	}
	mismatches++
}
`

type execPair struct {
	idx        int // index in ec.Funcs
	checker    string
	diag       core.Diag
	sug        *suggestion
	origName   string
	newName    string
	variantSrc string
	typeVec    string
}

func checkC10(t core.TB, rec *core.Recorder, env *gen.Env, all *core.Set, ec *execCase) {
	rec.Eval()
	// 1. the analysed file: header + one function per kernel
	var sb strings.Builder
	sb.WriteString(gen.ExecHeader)
	starts := make([]int, len(ec.Funcs)) // byte offset of each function
	ends := make([]int, len(ec.Funcs))
	for i, f := range ec.Funcs {
		sb.WriteString("\n")
		starts[i] = sb.Len()
		sb.WriteString(gen.RenderExecFunc(fmt.Sprintf("K%d", i), f.Body, f.AsVar))
		ends[i] = sb.Len()
	}
	src := sb.String()
	p := env.Load([]core.Source{{Name: "exec.go", Text: src}})
	if !p.OK() {
		rec.Reject()
		rec.Count("rejected:exec-kernel")
		rec.Sample("rejected-by-typechecker", 2, p.ErrSummary())
		return
	}
	diags, _ := all.RunAll(p, 0)
	var pairs []*execPair
	names := make([]string, 0, len(diags))
	for n := range diags {
		names = append(names, n)
	}
	sort.Strings(names)
	for _, name := range names {
		if !equivalenceFamilies[name] {
			continue
		}
		for _, d := range diags[name] {
			fi := -1
			for i := range ec.Funcs {
				if d.Offset >= starts[i] && d.Offset < ends[i] {
					fi = i
				}
			}
			if fi < 0 {
				continue
			}
			var sug *suggestion
			if name == "switchTrue" {
				// schematic message: the rewrite deletes the `true` tag
				fsrc := src[starts[fi]:ends[fi]]
				if k := strings.Index(fsrc, "true {"); k >= 0 && d.Offset >= starts[fi] {
					sug = &suggestion{From: starts[fi] + k, To: starts[fi] + k + len("true "), A: "true ", B: "", Origin: "message"}
				}
			} else if name == "sloppyLen" && !strings.Contains(d.Text, " can be ") {
				continue // a claim, not a rewrite (C12)
			} else {
				sug, _ = extractSuggestion(p, 0, name, d)
			}
			if sug == nil {
				rec.Count("recipe-not-matched:" + name)
				continue
			}
			if sug.From < starts[fi] || sug.To > ends[fi] {
				continue
			}
			fsrc := src[starts[fi]:sug.From] + sug.B + src[sug.To:ends[fi]]
			id := len(pairs)
			pr := &execPair{idx: fi, checker: name, diag: d, sug: sug,
				origName: fmt.Sprintf("orig%d", id), newName: fmt.Sprintf("new%d", id)}
			pr.variantSrc = renameExec(fsrc, fi, pr.newName)
			pr.typeVec = operandTypes(p, sug)
			pairs = append(pairs, pr)
		}
	}
	if len(pairs) == 0 {
		rec.Count("batches-without-rewrite")
		return
	}
	// 2. the program: originals, variants, drivers
	build := func(active []*execPair) (string, map[string][2]int) {
		var pb strings.Builder
		pb.WriteString(gen.ExecHeader)
		pb.WriteString(execDriverHeader)
		lines := map[string][2]int{}
		for _, pr := range active {
			f := ec.Funcs[pr.idx]
			o := renameExec(src[starts[pr.idx]:ends[pr.idx]], pr.idx, pr.origName)
			pb.WriteString("\n" + o + "\n")
			l0 := strings.Count(pb.String(), "\n") + 1
			pb.WriteString(pr.variantSrc + "\n")
			lines[pr.newName] = [2]int{l0, strings.Count(pb.String(), "\n")}
			// driver
			focus := f.Focus
			if len(focus) == 0 {
				focus = []string{"a", "b"}
			}
			isFocus := map[string]bool{}
			for _, x := range focus {
				isFocus[x] = true
			}
			id := pr.origName[len("orig"):]
			fmt.Fprintf(&pb, "func drive%s() {\n\tn := 0\n", id)
			depth := 0
			for _, x := range focus {
				grid := execGrids[x]
				if (x == "u" || x == "v") && f.NoZeroUint {
					grid = "gridUintNZ"
				}
				fmt.Fprintf(&pb, "\tfor _, %s := range %s {\n", x, grid)
				depth++
			}
			pb.WriteString("\tn++\n")
			for _, x := range []string{"a", "b", "c", "u", "v", "f", "g", "s", "t", "p", "q", "bs", "cs", "xs"} {
				if isFocus[x] {
					continue
				}
				grid := execGrids[x]
				if (x == "u" || x == "v") && f.NoZeroUint {
					grid = "gridUintNZ"
				}
				fmt.Fprintf(&pb, "\t%s := %s[(n*7+%d)%%len(%s)]\n", x, grid, len(x)*3+int(x[0]), grid)
			}
			pb.WriteString("\t_, _, _, _, _, _, _, _, _, _, _, _, _, _ = a, b, c, u, v, f, g, s, t, p, q, bs, cs, xs\n")
			call := "(a, b, c, u, v, f, g, s, t, p, q, cloneB(bs), cloneB(cs), cloneI(xs))"
			fmt.Fprintf(&pb, "\to := capture(func() (int, string, bool, float64) { return %s%s })\n", pr.origName, call)
			fmt.Fprintf(&pb, "\tw := capture(func() (int, string, bool, float64) { return %s%s })\n", pr.newName, call)
			fmt.Fprintf(&pb, "\tif o != w {\n\t\treport(%s, fmt.Sprintf(\"a=%%v b=%%v c=%%v u=%%v v=%%v f=%%v g=%%v s=%%q t=%%q p=%%v q=%%v bs=%%q cs=%%q xs=%%v\", a, b, c, u, v, f, g, s, t, p, q, bs, cs, xs), o, w)\n\t}\n", id)
			for i := 0; i < depth; i++ {
				pb.WriteString("\t}\n")
			}
			pb.WriteString("}\n")
		}
		pb.WriteString("\nfunc main() {\n")
		for _, pr := range active {
			fmt.Fprintf(&pb, "\tdrive%s()\n", pr.origName[len("orig"):])
		}
		pb.WriteString("\tfmt.Println(\"DONE\", mismatches)\n}\n")
		return pb.String(), lines
	}
	active := pairs
	c14Counter++
	var res xrun.Result
	for attempt := 0; attempt < 3; attempt++ {
		prog, lines := build(active)
		res = xrun.Run(xrun.Scratch(env.Work, c14Counter), map[string]string{"main.go": prog}, 3*time.Minute)
		if res.BuildOK {
			break
		}
		if res.TimedOut {
			rec.Inconclusive("C10: build timed out")
			return
		}
		// drop the variants the compiler rejects (suggested code does not compile: C09's subject)
		bad := map[string]bool{}
		for _, l := range strings.Split(res.BuildOut, "\n") {
			var ln, col int
			if n, _ := fmt.Sscanf(strings.TrimPrefix(l, "./"), "main.go:%d:%d:", &ln, &col); n >= 1 {
				for name, r := range lines {
					if ln >= r[0] && ln <= r[1] {
						bad[name] = true
					}
				}
			}
		}
		if len(bad) == 0 {
			rec.Inconclusive("C10: program does not build for a reason outside the variants: " + head200(res.BuildOut))
			return
		}
		var keep []*execPair
		for _, pr := range active {
			if bad[pr.newName] {
				rec.Count("variant-does-not-compile:" + pr.checker)
				rec.Sample("variant does not compile (C09's subject)", 2, map[string]string{"checker": pr.checker, "A": pr.sug.A, "B": pr.sug.B})
			} else {
				keep = append(keep, pr)
			}
		}
		active = keep
		if len(active) == 0 {
			return
		}
	}
	if !res.BuildOK {
		rec.Inconclusive("C10: program does not build after dropping rejected variants: " + head200(res.BuildOut))
		return
	}
	if res.TimedOut || !strings.Contains(res.RunOut, "DONE") {
		rec.Inconclusive("C10: program did not finish: " + head200(res.RunErr))
		return
	}
	byID := map[string][]string{}
	rawByID := map[string][2]string{}
	for _, l := range strings.Split(res.RunOut, "\n") {
		parts := strings.SplitN(l, "\t", 5)
		if len(parts) == 5 && parts[0] == "MISMATCH" {
			byID[parts[1]] = append(byID[parts[1]], fmt.Sprintf("inputs %s: original %s, rewritten %s", parts[2], parts[3], parts[4]))
			if _, ok := rawByID[parts[1]]; !ok {
				rawByID[parts[1]] = [2]string{parts[3], parts[4]}
			}
		}
	}
	for _, pr := range active {
		rec.Nontrivial(pr.checker, shapeClass(pr.sug.A), shapeClass(pr.sug.B), pr.typeVec)
		rec.Count("pairs:" + pr.checker)
		rec.Sample("pair:"+pr.checker, 1, map[string]string{"checker": pr.checker, "A": pr.sug.A, "B": pr.sug.B, "types": pr.typeVec})
		id := pr.origName[len("orig"):]
		if ms := byID[id]; len(ms) > 0 {
			sig := fmt.Sprintf("C10|%s|%s|%s", pr.checker, mismatchKind(rawByID[id]), typeClass(pr.typeVec))
			if !strings.HasPrefix(pr.checker, "bool") {
				_ = diffMiddle
			} else {
				am, bm := diffMiddle(pr.sug.A, pr.sug.B)
				sig = fmt.Sprintf("C10|%s|%s->%s|%s", pr.checker, shapeClass(am), shapeClass(bm), typeClass(pr.typeVec))
			}
			rec.Violation(t, sig,
				fmt.Sprintf("%s\nrewrites `%s` to `%s` but the behaviour differs (%d of the grid inputs), e.g.\n  %s\nin\n%s", pr.diag.String(), pr.sug.A, pr.sug.B, len(ms), strings.Join(trimLines(ms, 3), "\n  "), src[starts[pr.idx]:ends[pr.idx]]),
				&execCase{Funcs: []execFunc{ec.Funcs[pr.idx]}})
		}
	}
}

// operandTypes returns the sorted set of basic/named types of the identifiers inside A.
func operandTypes(p *core.Program, s *suggestion) string {
	set := map[string]bool{}
	f := p.Files[0]
	ast.Inspect(f, func(n ast.Node) bool {
		id, ok := n.(*ast.Ident)
		if !ok {
			return true
		}
		off := p.Fset.PositionFor(id.Pos(), false).Offset
		if off < s.From || off >= s.To {
			return true
		}
		if tv, ok := p.Info.Types[id]; ok && tv.IsValue() && tv.Type != nil {
			if _, isSig := tv.Type.Underlying().(*types.Signature); !isSig {
				set[typeStr(tv.Type)] = true
			}
		}
		return true
	})
	var out []string
	for k := range set {
		out = append(out, k)
	}
	sort.Strings(out)
	return strings.Join(out, ",")
}

// diffMiddle strips the common prefix and suffix of a and b: what remains names the rewrite.
func diffMiddle(a, b string) (string, string) {
	i := 0
	for i < len(a) && i < len(b) && a[i] == b[i] {
		i++
	}
	j := 0
	for j < len(a)-i && j < len(b)-i && a[len(a)-1-j] == b[len(b)-1-j] {
		j++
	}
	return a[i : len(a)-j], b[i : len(b)-j]
}

// typeClass coarsens an operand type vector to the kinds that matter for equivalence.
func typeClass(vec string) string {
	set := map[string]bool{}
	for _, t := range strings.Split(vec, ",") {
		switch {
		case t == "":
		case strings.Contains(t, "float") || strings.Contains(t, "namedF"):
			set["float"] = true
		case strings.HasPrefix(t, "uint"):
			set["uint"] = true
		case strings.Contains(t, "int") || strings.Contains(t, "namedI"):
			set["int"] = true
		case strings.Contains(t, "string") || strings.Contains(t, "namedS"):
			set["string"] = true
		case t == "bool":
		default:
			set["other"] = true
		}
	}
	var out []string
	for k := range set {
		out = append(out, k)
	}
	sort.Strings(out)
	return strings.Join(out, ",")
}

// mismatchKind classifies the first differing observation of a pair.
func mismatchKind(ow [2]string) string {
	o, w := ow[0], ow[1]
	op, wp := strings.HasPrefix(o, "panic("), strings.HasPrefix(w, "panic(")
	switch {
	case op && !wp:
		return "panic-removed"
	case !op && wp:
		return "panic-introduced"
	}
	ot, wt := strings.SplitN(o, " trace=", 2), strings.SplitN(w, " trace=", 2)
	if len(ot) == 2 && len(wt) == 2 && ot[0] == wt[0] {
		return "side-effect-order-or-count"
	}
	return "result"
}

// renameExec renames kernel function K<i> (either rendering) to name.
func renameExec(fsrc string, i int, name string) string {
	fsrc = strings.Replace(fsrc, fmt.Sprintf("func K%d(", i), "func "+name+"(", 1)
	return strings.Replace(fsrc, fmt.Sprintf("var K%d = func(", i), "var "+name+" = func(", 1)
}
