package props

import (
	"encoding/json"
	"fmt"
	"reflect"
	"regexp"
	gosyntax "regexp/syntax"
	"sort"
	"strconv"
	"strings"
	"sync"
	"testing"
	"unicode"
	"unicode/utf8"

	rsyntax "github.com/quasilyte/regex/syntax"
	"pgregory.net/rapid"

	"github.com/go-critic/go-critic/linter"

	"verif/harness/core"
	"verif/harness/gen"
)

type regexCase struct {
	Patterns []string `json:"patterns"`
	Raw      []bool   `json:"raw"`   // render as back-quoted literal when possible
	Extra    []string `json:"extra"` // extra random subjects
}

var (
	c11Once sync.Once
	c11Set  *core.Set
)

func regexSet(t testing.TB, env *gen.Env) *core.Set {
	c11Once.Do(func() {
		s, err := core.NewSet(env.Fset, []*linter.CheckerInfo{core.InfoByName("regexpSimplify")})
		if err != nil {
			t.Fatalf("regexpSimplify: %v", err)
		}
		c11Set = s
	})
	return c11Set
}

func init() {
	register("C11", prop{
		Run: func(t *testing.T, rec *core.Recorder) {
			env, _ := sharedEnv(t)
			set := regexSet(t, env)
			check(t, func(rt *rapid.T) {
				defer env.Release()
				g := &gen.RegexGen{T: rt}
				rc := &regexCase{}
				n := rapid.IntRange(1, 10).Draw(rt, "npatterns")
				for i := 0; i < n; i++ {
					p, ok := g.Pattern()
					if !ok {
						rec.Count("pattern-rejected")
						continue
					}
					rc.Patterns = append(rc.Patterns, p)
					rc.Raw = append(rc.Raw, rapid.Bool().Draw(rt, "raw"))
				}
				if rapid.IntRange(0, 4).Draw(rt, "twins") == 0 {
					// twin patterns: the same shape at the same offsets, once with a group that consumes
					// input and once with a group that can match the empty string
					prefix := pickT(rt, "twinPrefix", []string{"", "x", "xy", "ab+c", "[a-z]"})
					n := rapid.IntRange(1, 6).Draw(rt, "twinLen")
					solid := "(?:" + strings.Repeat("a", n+2) + ")"
					hollow := "(?:" + pickT(rt, "hollow", []string{"a||", "a*|", "b?|", "|a|"})[:3] + strings.Repeat("b", n-1) + ")"
					if n == 1 {
						hollow = "(?:" + pickT(rt, "hollow1", []string{"a||", "a*|", "b?|", "|a|"})[:3] + ")"
					}
					tail := pickT(rt, "twinTail", []string{"*", "*z", "*$"})
					for _, g := range []string{solid, hollow, solid} {
						rc.Patterns = append(rc.Patterns, prefix+g+g+tail)
						rc.Raw = append(rc.Raw, false)
					}
				}
				if len(rc.Patterns) == 0 {
					rt.Skip("no compilable pattern")
				}
				ne := rapid.IntRange(0, 6).Draw(rt, "nextra")
				for i := 0; i < ne; i++ {
					rc.Extra = append(rc.Extra, rapid.StringOfN(rapid.RuneFrom([]rune("abcx01-]{}^ éz7\n_,=/:")), 0, 12, -1).Draw(rt, "extra"))
				}
				checkC11(rt, rec, env, set, rc)
			})
		},
		Replay: func(t *testing.T, rec *core.Recorder, raw json.RawMessage) {
			env, _ := sharedEnv(t)
			var rc regexCase
			if err := json.Unmarshal(raw, &rc); err != nil {
				t.Fatal(err)
			}
			checkC11(t, rec, env, regexSet(t, env), &rc)
		},
	})
}

func goStringLit(p string, raw bool) string {
	if raw && !strings.Contains(p, "`") && utf8.ValidString(p) && !strings.Contains(p, "\r") {
		return "`" + p + "`"
	}
	return strconv.Quote(p)
}

// proposals runs regexpSimplify over the patterns and returns pattern index -> proposed rewrite.
func proposals(env *gen.Env, set *core.Set, rc *regexCase) (map[int]string, error) {
	var sb strings.Builder
	sb.WriteString("package p\n\nimport \"regexp\"\n\n")
	const first = 5
	for i, p := range rc.Patterns {
		raw := i < len(rc.Raw) && rc.Raw[i]
		if i%2 == 0 {
			fmt.Fprintf(&sb, "var _ = regexp.MustCompile(%s)\n", goStringLit(p, raw))
		} else {
			fmt.Fprintf(&sb, "var _, _ = regexp.Compile(%s)\n", goStringLit(p, raw))
		}
	}
	prog := env.Load([]core.Source{{Name: "re.go", Text: sb.String()}})
	if !prog.OK() {
		return nil, fmt.Errorf("regex host file does not type-check: %s", prog.ErrSummary())
	}
	diags, crashes := set.RunAll(prog, 0)
	if len(crashes) > 0 {
		return nil, fmt.Errorf("crash: %s", crashes[0].Value)
	}
	out := map[int]string{}
	for _, d := range diags["regexpSimplify"] {
		idx := d.Line - first
		if idx < 0 || idx >= len(rc.Patterns) {
			continue
		}
		prefix := "can re-write `" + rc.Patterns[idx] + "` as `"
		if !strings.HasPrefix(d.Text, prefix) || !strings.HasSuffix(d.Text, "`") {
			return nil, fmt.Errorf("unexpected message shape: %q", d.Text)
		}
		out[idx] = d.Text[len(prefix) : len(d.Text)-1]
	}
	return out, nil
}

// subjectsFor builds the small-scope exhaustive subject set: all strings of length <= 4 over an
// alphabet of <= 6 symbols taken from the pattern's own literal runes plus fixed foreigners.
func subjectsFor(a string, extra []string) []string {
	var alpha []rune
	seen := map[rune]bool{}
	add := func(r rune) {
		if !seen[r] && len(alpha) < 6 {
			seen[r] = true
			alpha = append(alpha, r)
		}
	}
	esc := false
	for _, r := range a {
		if esc {
			esc = false
			if strings.ContainsRune("dwsDWSbBpPAzQEnrtfvx", r) {
				continue
			}
			add(r)
			continue
		}
		if r == '\\' {
			esc = true
			continue
		}
		if strings.ContainsRune("()[]|*+?.:<>P", r) {
			continue
		}
		if len(alpha) < 4 {
			add(r)
		}
	}
	for _, r := range []rune{'a', '-', '1', ' ', 'z', '\n', 'é', 'b', '}'} {
		add(r)
	}
	var out []string
	var rec func(prefix string, depth int)
	rec = func(prefix string, depth int) {
		out = append(out, prefix)
		if depth == 4 {
			return
		}
		for _, r := range alpha {
			rec(prefix+string(r), depth+1)
		}
	}
	rec("", 0)
	out = append(out, extra...)
	return out
}

// regexDiff compares A and B; kind == "" means equivalent on everything explored.
func regexDiff(a, b string, extra []string) (kind, detail string) {
	ra, err := regexp.Compile(a)
	if err != nil {
		return "", "" // not in the domain
	}
	rb, err := regexp.Compile(b)
	if err != nil {
		return "rewrite-does-not-compile", err.Error()
	}
	if ra.NumSubexp() != rb.NumSubexp() {
		return "group-count", fmt.Sprintf("%d vs %d capture groups", ra.NumSubexp(), rb.NumSubexp())
	}
	if !reflect.DeepEqual(ra.SubexpNames(), rb.SubexpNames()) {
		return "group-names", fmt.Sprintf("%q vs %q", ra.SubexpNames(), rb.SubexpNames())
	}
	for _, s := range subjectsFor(a, extra) {
		ma, mb := ra.FindStringSubmatchIndex(s), rb.FindStringSubmatchIndex(s)
		if !reflect.DeepEqual(ma, mb) {
			k := "match-position"
			if (ma == nil) != (mb == nil) {
				k = "language"
			} else if ma[0] == mb[0] && ma[1] == mb[1] {
				k = "submatch"
			}
			return k, fmt.Sprintf("subject %q: original %v, rewrite %v", s, ma, mb)
		}
	}
	return "", ""
}

// canonPattern renames letters and digits in order of appearance so that a signature names the
// shape of a pattern rather than its alphabet.
func canonPattern(p string) string {
	letters := map[rune]rune{}
	next := 'a'
	var sb strings.Builder
	esc := false
	for _, r := range p {
		if esc {
			sb.WriteRune(r)
			esc = false
			continue
		}
		if r == '\\' {
			esc = true
			sb.WriteRune(r)
			continue
		}
		if r >= 'a' && r <= 'z' || r >= 'A' && r <= 'Z' || r > 127 {
			if _, ok := letters[r]; !ok {
				letters[r] = next
				if next < 'z' {
					next++
				}
			}
			sb.WriteRune(letters[r])
			continue
		}
		sb.WriteRune(r)
	}
	return sb.String()
}

func checkC11(t core.TB, rec *core.Recorder, env *gen.Env, set *core.Set, rc *regexCase) {
	props, err := proposals(env, set, rc)
	if err != nil {
		rec.Inconclusive("C11: " + err.Error())
		return
	}
	for i, a := range rc.Patterns {
		rec.Eval()
		b, ok := props[i]
		if !ok {
			continue
		}
		rec.Nontrivial(canonPattern(a))
		rec.Count("rewrites")
		rec.Sample("rewrite", 6, map[string]string{"pattern": a, "rewrite": b})
		kind, detail := regexDiff(a, b, rc.Extra)
		if kind == "" {
			continue
		}
		// does the pattern alone, in a checker that has seen nothing else, get the same proposal?
		// If not, the proposal depends on what the checker saw before: keep the whole batch.
		single := &regexCase{Patterns: []string{a}, Raw: []bool{false}, Extra: rc.Extra}
		if fresh, err := core.NewSet(env.Fset, []*linter.CheckerInfo{core.InfoByName("regexpSimplify")}); err == nil {
			if fp, err := proposals(env, fresh, single); err == nil && fp[0] != b {
				rec.Violation(t, "C11|regexpSimplify|history-dependent|"+kind,
					fmt.Sprintf("can re-write `%s` as `%s` is not an equivalence (%s): %s; a fresh checker proposes %q for the same pattern", a, b, kind, detail, fp[0]),
					rc)
				continue
			}
		}
		class := classifyRegexFinding(env, set, a, b, kind)
		rec.Violation(t, "C11|regexpSimplify|"+class,
			fmt.Sprintf("can re-write `%s` as `%s` is not an equivalence (%s): %s", a, b, kind, detail), single)
	}
}

// ---------------------------------------------------------------------------------------------
// localisation of a finding: the smallest sub-pattern of A whose own proposed rewrite is not an
// equivalence, abstracted (letters/digits/plain characters collapse to `a`), names the class.

func subPatterns(a string) []struct {
	text string
	op   string
} {
	type sp = struct {
		text string
		op   string
	}
	var out []sp
	re, err := rsyntax.NewParser(nil).Parse(a)
	if err != nil {
		return nil
	}
	seen := map[string]bool{}
	var walk func(e rsyntax.Expr)
	walk = func(e rsyntax.Expr) {
		b, en := int(e.Pos.Begin), int(e.Pos.End)
		if b >= 0 && en <= len(a) && b < en {
			s := a[b:en]
			if !seen[s] {
				seen[s] = true
				out = append(out, sp{s, e.Op.String()})
			}
		}
		for _, x := range e.Args {
			walk(x)
		}
	}
	walk(re.Expr)
	sort.SliceStable(out, func(i, j int) bool { return len(out[i].text) < len(out[j].text) })
	return out
}

func abstractPattern(s, op string) string {
	var toks []string
	esc := false
	for _, r := range s {
		var t string
		switch {
		case esc:
			esc = false
			t = `\` + string(r)
		case r == '\\':
			esc = true
			continue
		case strings.ContainsRune(`()[]|*+?.{}^$-,:<>`, r), r >= '0' && r <= '9':
			t = string(r)
		default:
			t = "a"
		}
		if t == "a" && len(toks) > 0 && toks[len(toks)-1] == "a" {
			continue
		}
		toks = append(toks, t)
	}
	abs := strings.Join(toks, "")
	// digits inside {n,m} became `a`: restore the usual spellings coarsely
	if op == "OpAlt" {
		parts := strings.Split(abs, "|")
		sort.Strings(parts)
		var uniq []string
		for i, p := range parts {
			if i == 0 || p != parts[i-1] {
				uniq = append(uniq, p)
			}
		}
		abs = strings.Join(uniq, "|")
	}
	if len(abs) > 24 {
		abs = abs[:24] + "…"
	}
	return abs
}

// candidates returns smaller variants of a: a sub-expression hoisted over its parent, replaced
// by the literal `a`, or deleted.
func regexCandidates(a string) []string {
	re, err := rsyntax.NewParser(nil).Parse(a)
	if err != nil {
		return nil
	}
	seen := map[string]bool{a: true}
	var out []string
	add := func(c string) {
		if c == "" || seen[c] || len(c) >= len(a) {
			return
		}
		if _, err := regexp.Compile(c); err != nil {
			return
		}
		seen[c] = true
		out = append(out, c)
	}
	var walk func(e rsyntax.Expr)
	walk = func(e rsyntax.Expr) {
		b, en := int(e.Pos.Begin), int(e.Pos.End)
		if b >= 0 && en <= len(a) && b < en {
			add(a[:b] + a[en:])       // delete
			add(a[:b] + "a" + a[en:]) // replace by a literal
			if b > 0 && a[b-1] == '|' {
				add(a[:b-1] + a[en:]) // delete an alternative with its bar
			}
			if en < len(a) && a[en] == '|' {
				add(a[:b] + a[en+1:])
			}
			for _, x := range e.Args {
				xb, xe := int(x.Pos.Begin), int(x.Pos.End)
				if xb >= b && xe <= en && xb < xe {
					add(a[:b] + a[xb:xe] + a[en:]) // hoist a child
				}
			}
		}
		for _, x := range e.Args {
			walk(x)
		}
	}
	walk(re.Expr)
	sort.SliceStable(out, func(i, j int) bool { return len(out[i]) < len(out[j]) })
	return out
}

// minimizeRegex shrinks a failing pattern to a local minimum that still fails with the same kind.
func minimizeRegex(env *gen.Env, set *core.Set, a, kind string) string {
	for round := 0; round < 40; round++ {
		cands := regexCandidates(a)
		if len(cands) == 0 {
			return a
		}
		props, err := proposals(env, set, &regexCase{Patterns: cands})
		if err != nil {
			return a
		}
		next := ""
		for i, c := range cands {
			b, ok := props[i]
			if !ok {
				continue
			}
			if k, _ := regexDiff(c, b, nil); k == kind {
				next = c
				break
			}
		}
		if next == "" {
			return a
		}
		a = next
	}
	return a
}

func classifyRegexFinding(env *gen.Env, set *core.Set, a, b, kind string) string {
	if goFoldFactoringQuirk(a) {
		// the reference itself is inconsistent here (see goFoldFactoringQuirk)
		return "go-regexp-prefix-factoring-ignores-case-flag"
	}
	if strings.Contains(a, "[][]") && strings.Contains(b, `\]\[`) {
		// an explicit rule of the checker, asserted by its own test data: the class `[][]` (one of
		// `]` and `[`) is re-written as the sequence `\]\[`
		return "bracket-pair-class-rewritten-as-sequence"
	}
	m := minimizeRegex(env, set, a, kind)
	op := "?"
	if re, err := rsyntax.NewParser(nil).Parse(m); err == nil {
		op = re.Expr.Op.String()
		if hasShorterPrefixFirstAlt(re.Expr) {
			// `ab|abc` -> `abc?`: Go's leftmost-first alternation prefers `ab`, the rewrite is greedy.
			return "prefix-factoring-shorter-alternative-first"
		}
	}
	return kind + "|" + abstractPattern(m, op)
}

// hasShorterPrefixFirstAlt reports whether e contains a two-way alternation of literals in which
// the first alternative is a proper prefix of the second.
func hasShorterPrefixFirstAlt(e rsyntax.Expr) bool {
	if e.Op == rsyntax.OpAlt && len(e.Args) == 2 {
		lit := func(x rsyntax.Expr) (string, bool) {
			switch x.Op {
			case rsyntax.OpChar:
				return x.Value, true
			case rsyntax.OpConcat, rsyntax.OpLiteral:
				for _, a := range x.Args {
					if a.Op != rsyntax.OpChar {
						return "", false
					}
				}
				return x.Value, len(x.Args) > 0
			}
			return "", false
		}
		x, okx := lit(e.Args[0])
		y, oky := lit(e.Args[1])
		// case-insensitively: under (?i) `AA|aAA` (re-written as `a?AA`) is the same situation
		if okx && oky && len(x) < len(y) && strings.EqualFold(y[:len(x)], x) {
			return true
		}
	}
	for _, a := range e.Args {
		if hasShorterPrefixFirstAlt(a) {
			return true
		}
	}
	return false
}

// goFoldFactoringQuirk reports whether the pattern has an alternation in which two branches start
// with the same letter but only one of them case-insensitively, e.g. `(?i:Abbbbb)|A`. Go's
// regexp/syntax factors common leading pieces of alternatives without comparing their fold-case
// flag once the first piece is a separate node: `(?i:Ab{5})|A` is compiled as `(?i:A(?:b{5}|))` and
// matches "a", while `(?i:Abbbbb)|A` does not. Any rewrite that splits the leading literal off
// (run folding, `xx*` -> `x+`) therefore changes the matches although it is an equivalence on paper.
func goFoldFactoringQuirk(pat string) bool {
	re, err := gosyntax.Parse(pat, gosyntax.Perl)
	if err != nil {
		return false
	}
	var lead func(r *gosyntax.Regexp) (rune, bool, bool)
	lead = func(r *gosyntax.Regexp) (rune, bool, bool) {
		switch r.Op {
		case gosyntax.OpLiteral:
			if len(r.Rune) > 0 {
				return unicode.SimpleFold(unicode.ToLower(r.Rune[0])), r.Flags&gosyntax.FoldCase != 0, true
			}
		case gosyntax.OpConcat, gosyntax.OpCapture, gosyntax.OpPlus:
			if len(r.Sub) > 0 {
				return lead(r.Sub[0])
			}
		case gosyntax.OpRepeat:
			if r.Min >= 1 && len(r.Sub) > 0 {
				return lead(r.Sub[0])
			}
		}
		return 0, false, false
	}
	found := false
	var walk func(r *gosyntax.Regexp)
	walk = func(r *gosyntax.Regexp) {
		if r.Op == gosyntax.OpAlternate {
			for i := range r.Sub {
				for j := i + 1; j < len(r.Sub); j++ {
					ri, fi, oki := lead(r.Sub[i])
					rj, fj, okj := lead(r.Sub[j])
					if oki && okj && fi != fj && unicode.ToLower(ri) == unicode.ToLower(rj) {
						found = true
					}
				}
			}
		}
		for _, s := range r.Sub {
			walk(s)
		}
	}
	walk(re)
	return found
}
