package props

import (
	"encoding/json"
	"fmt"
	"go/ast"
	"go/token"
	"go/types"
	"sort"
	"strings"
	"testing"
	"time"

	"github.com/go-toolsmith/astfmt"
	"pgregory.net/rapid"

	"verif/harness/core"
	"verif/harness/gen"
	"verif/harness/xrun"
)

// claimKernels: bodies whose flagged expression is instrumented and executed.
var claimKernels = []gen.ExecKernel{
	{Family: "sloppyLen", Body: "r2 = len(xs) >= 0\nr2 = r2 != (len(s) < 0)\nr2 = r2 != (len(bs) >= 0)", Focus: []string{"xs", "s", "bs"}},
	{Family: "sloppyLen", Body: "len := lenNeg\nr2 = len(xs) >= 0\nr2 = r2 != (len(xs) < 0)", Focus: []string{"xs", "a"}},
	{Family: "sloppyLen", Body: "m := map[string]int{s: a}\nch := make(chan int, 2)\nr2 = len(m) >= 0 && len(ch) >= 0 || len(t) < 0", Focus: []string{"s", "t"}},
	{Family: "badCond", Body: "r2 = ‹I:x› < ‹IL› && ‹I:x› > ‹IL›", Focus: []string{"a", "b", "c"}},
	{Family: "badCond", Body: "r2 = ‹I:x› ‹CMP› ‹IL› && ‹I:x› ‹CMP› ‹IL›", Focus: []string{"a", "b", "c"}},
	{Family: "badCond", Body: "r2 = ‹I:x› ‹CMP› ‹IL› && ‹I:x› ‹CMP› ‹IL›\nr2 = r2 != (‹F:y› ‹CMP› 1 && ‹F:y› ‹CMP› 2)\nr2 = r2 != (‹IL› > ‹I:z› && ‹IL› < ‹I:z›)", Focus: []string{"a", "b", "f"}},
	{Family: "badCond", Body: "r2 = a < 1 && a > 5\nr2 = r2 != (b < -1 && b > 10)\nr2 = r2 != (‹F:y› < 1 && ‹F:y› > 2)", Focus: []string{"a", "b", "f"}},
	{Family: "badCond", Body: "ctr := 0\nnextv := func() int { ctr++; return ctr*10 - 10 }\nr2 = nextv() < 1 && nextv() > 5", Focus: []string{"a"}},
	{Family: "badCond", Body: "ys := []int{0, 10}\ni := -1\nnext := func() int { i++; return i & 1 }\nr2 = ys[next()] < 1 && ys[next()] > 5", Focus: []string{"a"}},
	{Family: "badCond", Body: "r2 = a == 1 && a == 2\nr2 = r2 != (s == \"a\" && s == \"b\")", Focus: []string{"a", "s"}},
	{Family: "offBy1", Body: "defer func() {\nif e := recover(); e != nil {\nr1 = \"panic\"\n}\n}()\nr0 = xs[len(xs)]", Focus: []string{"xs"}},
	{Family: "offBy1", Body: "defer func() {\nif e := recover(); e != nil {\nr1 = \"panic\"\n}\n}()\nr0 = int(s[len(s)]) + int(bs[len(bs)])", Focus: []string{"s", "bs"}},
	{Family: "offBy1", Body: "defer func() {\nif e := recover(); e != nil {\nr1 = \"panic\"\n}\n}()\nm := map[int]int{0: 7, 1: 8}\nr0 = m[len(m)]", Focus: []string{"a"}},
	{Family: "offBy1", Body: "defer func() {\nif e := recover(); e != nil {\nr1 = \"panic\"\n}\n}()\nlen := func(v []int) int { return 0 }\nys := append([]int{5}, xs...)\nr0 = ys[len(ys)]", Focus: []string{"xs"}},
	{Family: "offBy1", Body: "defer func() {\nif e := recover(); e != nil {\nr1 = \"panic\"\n}\n}()\ntype reg map[int]int\nr := reg{0: 7, 1: 8}\nr[len(r)] = 5\nr0 = r[len(r)] + len(r)\ntype names map[int]string\nnm := names{}\nnm[len(nm)] = s\nr1 = nm[len(nm)]", Focus: []string{"a", "s"}},
	{Family: "offBy1", Body: "defer func() {\nif e := recover(); e != nil {\nr1 = \"panic\"\n}\n}()\ntype sl []int\ntype arr3 [3]int\nys := sl(xs)\nvar z arr3\nr0 = len(z)\nr0 += ys[len(ys)]", Focus: []string{"xs"}},
	{Family: "nilValReturn", Body: "n := 0\nnext := func() *pair {\nn++\nif n%2 == 1 {\nreturn nil\n}\nreturn &pair{a: n}\n}\nh := func() *pair {\nif nil == next() {\nreturn next()\n}\nreturn nil\n}\nh2 := func() *pair {\nif next() == nil {\nreturn next()\n}\nreturn nil\n}\nr2 = h() == nil && h2() == nil && p", Focus: []string{"p"}},
	{Family: "nilValReturn", Body: "ch := make(chan error, 4)\nch <- nil\nch <- fmt.Errorf(\"x\")\nh := func() error {\nif nil == <-ch {\nreturn <-ch\n}\nreturn nil\n}\nvar in *pair\nif p {\nin = &pair{}\n}\ng := func(pp *pair) *pair {\nif nil == pp {\nreturn pp\n}\nif nil != pp {\nreturn pp\n}\nreturn nil\n}\nr2 = h() == nil && g(in) == nil", Focus: []string{"p"}},
	{Family: "nilValReturn", Body: "h := func(pp *pair) *pair {\nif pp == nil {\nreturn pp\n}\nreturn &pair{}\n}\nvar in *pair\nif p {\nin = &pair{}\n}\nr2 = h(in) == nil", Focus: []string{"p"}},
	{Family: "nilValReturn", Body: "h := func(e error) error {\nif e == nil {\nreturn e\n}\nreturn nil\n}\nvar in error\nif p {\nin = fmt.Errorf(\"x\")\n}\nr2 = h(in) == nil", Focus: []string{"p"}},
	{Family: "nilValReturn", Body: "h := func(ys []int, m map[string]int) ([]int, map[string]int) {\nif ys == nil {\nreturn ys, m\n}\nif m == nil {\nreturn nil, m\n}\nreturn ys, m\n}\ny2, m2 := h(xs, nil)\nr0 = len(y2) + len(m2)", Focus: []string{"xs"}},
	{Family: "dupSubExpr", Body: "r2 = ‹I:x› == ‹I:x›\nr0 = ‹I:y› - ‹I:y›\nr2 = r2 != (‹F:z› != ‹F:z›)", Focus: []string{"a", "b", "f"}},
	{Family: "dupSubExpr", Body: "ctr := 0\nnextv := func() int { ctr++; return ctr }\nr0 = nextv() - nextv()\nr2 = nextv() == nextv()", Focus: []string{"a"}},
	{Family: "dupSubExpr", Body: "ys := []int{1, 2, 3}\nr2 = ys[a&1] == ys[a&1]\nr2 = r2 && (s < s || t != t)\nr0 = a & a", Focus: []string{"a", "s", "t"}},
	{Family: "dupArg", Body: "r2 = strings.Contains(‹S:x›, ‹S:x›)\nr0 = copy(xs, xs) + strings.Compare(s, s)\nr2 = r2 != bytes.Equal(bs, bs)", Focus: []string{"s", "t", "bs"}},
	{Family: "dupArg", Body: "ctr := 0\nnexts := func() string { ctr++; return strings.Repeat(\"a\", ctr) }\nr2 = strings.Contains(nexts(), nexts())\nr2 = r2 != strings.HasPrefix(nexts(), nexts())", Focus: []string{"a"}},
	{Family: "caseOrder", Body: "vals := []interface{}{nil, 1, \"s\", strT(\"x\"), &ptrStr{\"p\"}, fmt.Errorf(\"e\"), pair{}}\nval := vals[(a+3)%len(vals)]\nswitch val.(type) {\ncase fmt.Stringer:\nr0 = 1\ncase strT:\nr0 = 2\ncase *ptrStr:\nr0 = 3\ncase error:\nr0 = 4\n}", Focus: []string{"a"}},
	{Family: "caseOrder", Body: "vals := []interface{}{nil, 1, ptrStr{\"v\"}, strT(\"x\"), &ptrStr{\"p\"}, fmt.Errorf(\"e\"), pair{}, &pair{}}\nval := vals[(a+3)%len(vals)]\nswitch val.(type) {\ncase fmt.Stringer:\nr0 = 1\ncase ptrStr:\nr0 = 2\ncase pair:\nr0 = 3\ncase *pair:\nr0 = 4\n}", Focus: []string{"a"}},
	{Family: "caseOrder", Body: "vals := []interface{}{nil, 1, ptrStr{\"v\"}, strT(\"x\"), &ptrStr{\"p\"}, pair{}, &pair{}}\nval := vals[(a+3)%len(vals)]\nswitch val.(type) {\ncase interface{ Inc(int) int }:\nr0 = 1\ncase pair, ptrStr:\nr0 = 2\ncase interface{ Get(int) int }:\nr0 = 3\ncase *pair:\nr0 = 4\n}", Focus: []string{"a"}},
	{Family: "caseOrder", Body: "vals := []interface{}{nil, 1, \"s\", strT(\"x\"), &ptrStr{\"p\"}, fmt.Errorf(\"e\"), pair{}}\nval := vals[(a+3)%len(vals)]\nswitch val.(type) {\ncase interface{}:\nr0 = 1\ncase nil:\nr0 = 2\ncase int:\nr0 = 3\n}", Focus: []string{"a"}},
	{Family: "caseOrder", Body: "vals := []interface{}{nil, 1, \"s\", strT(\"x\"), &ptrStr{\"p\"}, fmt.Errorf(\"e\"), pair{}}\nval := vals[(a+3)%len(vals)]\nswitch x := val.(type) {\ncase interface{ String() string }:\nr1 = x.String()\ncase fmt.Stringer:\nr0 = 2\ncase strT, int:\nr0 = 3\n}", Focus: []string{"a"}},
}

const claimHelpers = `
var violated bool
var held interface{}

func claimBool(v, want bool) bool {
	if v != want {
		violated = true
	}
	return v
}

func mustPanic(f func() interface{}) (v interface{}) {
	defer func() {
		if e := recover(); e == nil {
			violated = true
		} else {
			panic(e)
		}
	}()
	return f()
}

func claimNil[T any](v T) T {
	switch fmt.Sprintf("%v", interface{}(v)) {
	case "<nil>", "[]", "map[]":
		if s := fmt.Sprintf("%#v", interface{}(v)); strings.Contains(s, "{}") && !strings.Contains(s, "nil") {
			violated = true // empty but non-nil
		}
	default:
		violated = true
	}
	return v
}

func sameL[T any](v T) T { held = fmt.Sprintf("%#v", interface{}(v)); return v }
func sameR[T any](v T) T {
	if held != fmt.Sprintf("%#v", interface{}(v)) {
		violated = true
	}
	return v
}
func unreach() { violated = true }
`

func init() {
	register("C12", prop{
		Run: func(t *testing.T, rec *core.Recorder) {
			env, all := sharedEnv(t)
			check(t, func(rt *rapid.T) {
				defer env.Release()
				ec := &execCase{}
				n := rapid.IntRange(3, 8).Draw(rt, "nkernels")
				for i := 0; i < n; i++ {
					k := claimKernels[rapid.IntRange(0, len(claimKernels)-1).Draw(rt, "kernel")]
					ec.Funcs = append(ec.Funcs, execFunc{Family: k.Family, Body: gen.InstantiateExec(rt, k.Body), Focus: k.Focus})
				}
				checkC12(rt, rec, env, all, ec)
			})
		},
		Replay: func(t *testing.T, rec *core.Recorder, raw json.RawMessage) {
			env, all := sharedEnv(t)
			var ec execCase
			if err := json.Unmarshal(raw, &ec); err != nil {
				t.Fatal(err)
			}
			checkC12(t, rec, env, all, &ec)
		},
	})
}

type claim struct {
	idx     int
	checker string
	diag    core.Diag
	what    string // human description of the claim
	class   string // side-condition class for the signature
	edits   []gen.Edit
}

// exprAt returns the largest expression node starting at pos whose source text or printed form
// is one of wants (any expression if wants is empty).
func exprAt(p *core.Program, f *ast.File, pos token.Pos, wants ...string) ast.Expr {
	at, _ := nodesAt(f, pos)
	for _, n := range at {
		e, ok := n.(ast.Expr)
		if !ok {
			continue
		}
		if len(wants) == 0 {
			return e
		}
		for _, w := range wants {
			if srcText(p, 0, e) == w || astfmt.Sprint(e) == w {
				return e
			}
		}
	}
	return nil
}

func isPure(p *core.Program, e ast.Expr) string {
	impure := false
	ast.Inspect(e, func(n ast.Node) bool {
		if c, ok := n.(*ast.CallExpr); ok {
			if tv, ok := p.Info.Types[c.Fun]; ok && !tv.IsType() && !tv.IsBuiltin() {
				impure = true
			}
			if id, ok := c.Fun.(*ast.Ident); ok {
				if _, isB := p.Info.Uses[id].(*types.Builtin); !isB && !p.Info.Types[c.Fun].IsType() {
					impure = true
				}
			}
		}
		return true
	})
	if impure {
		return "impure-operand"
	}
	return "pure-operand"
}

func (c *claim) wrap(p *core.Program, e ast.Node, pre, post string) {
	a := p.Fset.PositionFor(e.Pos(), false).Offset
	b := p.Fset.PositionFor(e.End(), false).Offset
	c.edits = append(c.edits, gen.Edit{File: 0, From: a, To: a, Text: pre}, gen.Edit{File: 0, From: b, To: b, Text: post})
}

func checkC12(t core.TB, rec *core.Recorder, env *gen.Env, all *core.Set, ec *execCase) {
	rec.Eval()
	var sb strings.Builder
	sb.WriteString(gen.ExecHeader)
	starts := make([]int, len(ec.Funcs))
	ends := make([]int, len(ec.Funcs))
	for i, f := range ec.Funcs {
		sb.WriteString("\n")
		starts[i] = sb.Len()
		sb.WriteString(gen.RenderExecFunc(fmt.Sprintf("K%d", i), f.Body, false))
		ends[i] = sb.Len()
	}
	src := sb.String()
	p := env.Load([]core.Source{{Name: "exec.go", Text: src}})
	if !p.OK() {
		rec.Reject()
		rec.Sample("rejected-by-typechecker", 2, p.ErrSummary())
		return
	}
	f := p.Files[0]
	tf := p.Fset.File(f.Pos())
	diags, _ := all.RunAll(p, 0)
	var claims []*claim
	for _, name := range []string{"sloppyLen", "badCond", "offBy1", "nilValReturn", "dupSubExpr", "dupArg", "caseOrder"} {
		for _, d := range diags[name] {
			fi := -1
			for i := range ec.Funcs {
				if d.Offset >= starts[i] && d.Offset < ends[i] {
					fi = i
				}
			}
			if fi < 0 {
				continue
			}
			pos := tf.Pos(d.Offset)
			c := &claim{idx: fi, checker: name, diag: d}
			switch name {
			case "sloppyLen":
				var want string
				switch {
				case strings.HasSuffix(d.Text, " is always true"):
					want = "true"
				case strings.HasSuffix(d.Text, " is always false"):
					want = "false"
				default:
					continue
				}
				x := strings.TrimSuffix(strings.TrimSuffix(d.Text, " is always true"), " is always false")
				e := exprAt(p, f, pos, x)
				if e == nil {
					rec.Count("claim-not-located:" + name)
					continue
				}
				c.what, c.class = "always "+want, lenClass(p, e)
				c.wrap(p, e, "claimBool(", ", "+want+")")
			case "badCond":
				var want string
				switch {
				case strings.HasSuffix(d.Text, " condition is always false"):
					want = "false"
				case strings.HasSuffix(d.Text, " condition is always true"):
					want = "true"
				default:
					continue // "suspicious" is not a definite claim
				}
				e := exprAt(p, f, pos)
				be, ok := e.(*ast.BinaryExpr)
				if !ok {
					rec.Count("claim-not-located:" + name)
					continue
				}
				c.what, c.class = "condition always "+want, isPure(p, be)
				c.wrap(p, be, "claimBool(", ", "+want+")")
			case "offBy1":
				if !strings.Contains(d.Text, "always panics") {
					continue
				}
				e := exprAt(p, f, pos)
				ie, ok := e.(*ast.IndexExpr)
				if !ok {
					rec.Count("claim-not-located:" + name)
					continue
				}
				ty := types.TypeString(p.Info.TypeOf(ie), func(*types.Package) string { return "" })
				c.what, c.class = "index expression always panics", containerClass(p, ie)+"/"+lenClass(p, ie.Index)
				// an assignment target cannot be wrapped as a value: the whole store must panic
				var store *ast.AssignStmt
				if at, _ := nodesAt(f, pos); true {
					for _, n := range at {
						if as, ok := n.(*ast.AssignStmt); ok {
							for _, l := range as.Lhs {
								if l == ast.Expr(ie) {
									store = as
								}
							}
						}
					}
				}
				if store != nil {
					c.wrap(p, store, "mustPanic(func() interface{} { ", "; return nil })")
				} else {
					c.wrap(p, ie, "mustPanic(func() interface{} { return ", " }).("+ty+")")
				}
			case "nilValReturn":
				at, _ := nodesAt(f, pos)
				var ret *ast.ReturnStmt
				for _, n := range at {
					if r, ok := n.(*ast.ReturnStmt); ok {
						ret = r
					}
				}
				if ret == nil {
					continue
				}
				val := strings.TrimSuffix(strings.TrimPrefix(d.Text, "returned expr is always nil; replace "), " with nil")
				for _, r := range ret.Results {
					if srcText(p, 0, r) == val {
						c.what, c.class = "returned value always nil", typeKind(p.Info.TypeOf(r))
						c.wrap(p, r, "claimNil(", ")")
						break
					}
				}
				if len(c.edits) == 0 {
					continue
				}
			case "dupSubExpr":
				// the binary expression at pos whose operands are textually identical (an outer
				// `x <= x && y` starts at the same position)
				var be *ast.BinaryExpr
				at, _ := nodesAt(f, pos)
				for _, n := range at {
					if b, ok := n.(*ast.BinaryExpr); ok && srcText(p, 0, b.X) == srcText(p, 0, b.Y) && strings.Contains(d.Text, "`"+b.Op.String()+"`") {
						be = b
					}
				}
				if be == nil {
					rec.Count("claim-not-located:" + name)
					continue
				}
				if tv, ok := p.Info.Types[be.X]; ok && tv.Value != nil {
					// identical constant operands are the same value by construction (and an untyped
					// constant would change its type inside the generic monitor)
					rec.Count("claim-trivially-true:constant-operands")
					continue
				}
				c.what, c.class = "both operands are the same value", isPure(p, be)
				c.wrap(p, be.X, "sameL(", ")")
				c.wrap(p, be.Y, "sameR(", ")")
			case "dupArg":
				e := exprAt(p, f, pos)
				call, ok := e.(*ast.CallExpr)
				if !ok {
					continue
				}
				found := false
				for i := 0; i < len(call.Args) && !found; i++ {
					for j := i + 1; j < len(call.Args); j++ {
						if srcText(p, 0, call.Args[i]) == srcText(p, 0, call.Args[j]) {
							if _, isFn := p.Info.TypeOf(call.Args[i]).Underlying().(*types.Signature); isFn {
								continue
							}
							c.what, c.class = "both arguments are the same value", isPure(p, call.Args[i])
							c.wrap(p, call.Args[i], "sameL(", ")")
							c.wrap(p, call.Args[j], "sameR(", ")")
							found = true
							break
						}
					}
				}
				if !found {
					continue
				}
			case "caseOrder":
				at, _ := nodesAt(f, pos)
				var cc *ast.CaseClause
				for _, n := range at {
					if x, ok := n.(*ast.CaseClause); ok {
						cc = x
					}
				}
				if cc == nil {
					continue
				}
				// the claim is about one type of the clause: a value of that dynamic type never arrives here
				_, path := nodesAt(f, pos)
				tag := ""
				for _, n := range path {
					if ts, ok := n.(*ast.TypeSwitchStmt); ok {
						var ta *ast.TypeAssertExpr
						switch a := ts.Assign.(type) {
						case *ast.ExprStmt:
							ta, _ = a.X.(*ast.TypeAssertExpr)
						case *ast.AssignStmt:
							if len(a.Rhs) == 1 {
								ta, _ = a.Rhs[0].(*ast.TypeAssertExpr)
							}
						}
						if ta != nil {
							tag = srcText(p, 0, ta.X)
						}
						break
					}
				}
				rest := strings.TrimPrefix(d.Text, "case ")
				k := strings.Index(rest, " must go before the ")
				if tag == "" || k < 0 {
					continue
				}
				concrete := rest[:k]
				guard := fmt.Sprintf(" if _, vok := interface{}(%s).(%s); vok { unreach() };", tag, concrete)
				if concrete == "nil" {
					guard = fmt.Sprintf(" if %s == nil { unreach() };", tag)
				}
				colon := p.Fset.PositionFor(cc.Colon, false).Offset + 1
				c.what, c.class = "case can never be reached: "+d.Text, caseClass(d.Text)
				c.edits = append(c.edits, gen.Edit{File: 0, From: colon, To: colon, Text: guard})
			}
			claims = append(claims, c)
		}
	}
	if len(claims) == 0 {
		rec.Count("batches-without-claim")
		return
	}
	// program: one instrumented copy of the function per claim
	var pb strings.Builder
	pb.WriteString(gen.ExecHeader)
	pb.WriteString(execDriverHeader)
	pb.WriteString(claimHelpers)
	for ci, c := range claims {
		// apply this claim's edits inside its function
		es := append([]gen.Edit{}, c.edits...)
		sort.SliceStable(es, func(i, j int) bool {
			if es[i].From != es[j].From {
				return es[i].From < es[j].From
			}
			return i < j
		})
		fsrc := ""
		last := starts[c.idx]
		bad := false
		for _, e := range es {
			if e.From < last || e.To > ends[c.idx] {
				bad = true
				break
			}
			fsrc += src[last:e.From] + e.Text
			last = e.To
		}
		if bad {
			continue
		}
		fsrc += src[last:ends[c.idx]]
		name := fmt.Sprintf("claim%d", ci)
		pb.WriteString("\n" + renameExec(fsrc, c.idx, name) + "\n")
		focus := ec.Funcs[c.idx].Focus
		if len(focus) == 0 {
			focus = []string{"a", "b"}
		}
		isFocus := map[string]bool{}
		fmt.Fprintf(&pb, "func drive%d() {\n\tn := 0\n", ci)
		for _, x := range focus {
			isFocus[x] = true
			fmt.Fprintf(&pb, "\tfor _, %s := range %s {\n", x, execGrids[x])
		}
		pb.WriteString("\tn++\n")
		for _, x := range []string{"a", "b", "c", "u", "v", "f", "g", "s", "t", "p", "q", "bs", "cs", "xs"} {
			if !isFocus[x] {
				fmt.Fprintf(&pb, "\t%s := %s[(n*7+%d)%%len(%s)]\n", x, execGrids[x], len(x)*3+int(x[0]), execGrids[x])
			}
		}
		pb.WriteString("\t_, _, _, _, _, _, _, _, _, _, _, _, _, _ = a, b, c, u, v, f, g, s, t, p, q, bs, cs, xs\n")
		pb.WriteString("\tviolated = false\n")
		fmt.Fprintf(&pb, "\tout := capture(func() (int, string, bool, float64) { return %s(a, b, c, u, v, f, g, s, t, p, q, cloneB(bs), cloneB(cs), cloneI(xs)) })\n", name)
		fmt.Fprintf(&pb, "\tif violated {\n\t\treport(%d, fmt.Sprintf(\"a=%%v b=%%v f=%%v s=%%q t=%%q p=%%v bs=%%q xs=%%v\", a, b, f, s, t, p, bs, xs), out, \"-\")\n\t}\n", ci)
		for range focus {
			pb.WriteString("\t}\n")
		}
		pb.WriteString("}\n")
	}
	pb.WriteString("\nfunc main() {\n")
	for ci := range claims {
		fmt.Fprintf(&pb, "\tdrive%d()\n", ci)
	}
	pb.WriteString("\tfmt.Println(\"DONE\", mismatches)\n}\n")
	c14Counter++
	res := xrun.Run(xrun.Scratch(env.Work, c14Counter), map[string]string{"main.go": pb.String()}, 3*time.Minute)
	if !res.BuildOK {
		rec.Inconclusive("C12: instrumented program does not build: " + head200(res.BuildOut))
		return
	}
	if res.TimedOut || !strings.Contains(res.RunOut, "DONE") {
		rec.Inconclusive("C12: program did not finish: " + head200(res.RunErr))
		return
	}
	byID := map[string][]string{}
	for _, l := range strings.Split(res.RunOut, "\n") {
		parts := strings.SplitN(l, "\t", 5)
		if len(parts) == 5 && parts[0] == "MISMATCH" {
			byID[parts[1]] = append(byID[parts[1]], "inputs "+parts[2]+": "+parts[3])
		}
	}
	for ci, c := range claims {
		rec.Nontrivial(c.checker, c.class, core.NormMsg(c.diag.Text))
		rec.Count("claims:" + c.checker)
		rec.Sample("claim:"+c.checker+":"+c.class, 1, map[string]string{"diagnostic": c.diag.String(), "claim": c.what, "class": c.class})
		if ms := byID[fmt.Sprint(ci)]; len(ms) > 0 {
			rec.Violation(t, "C12|"+c.checker+"|"+c.what2()+"|"+c.class,
				fmt.Sprintf("%s\nclaims: %s — but it does not hold on %d grid inputs, e.g.\n  %s\nin\n%s", c.diag.String(), c.what, len(ms), strings.Join(trimLines(ms, 3), "\n  "), src[starts[c.idx]:ends[c.idx]]),
				&execCase{Funcs: []execFunc{ec.Funcs[c.idx]}})
		}
	}
}

func (c *claim) what2() string {
	if i := strings.IndexByte(c.what, ':'); i > 0 {
		return c.what[:i]
	}
	return c.what
}

// lenClass: does the `len` inside e resolve to the builtin?
func lenClass(p *core.Program, e ast.Node) string {
	cls := "builtin-len"
	ast.Inspect(e, func(n ast.Node) bool {
		if id, ok := n.(*ast.Ident); ok && id.Name == "len" {
			if _, isB := p.Info.Uses[id].(*types.Builtin); !isB {
				cls = "user-defined-len"
			}
		}
		return true
	})
	return cls
}

func containerClass(p *core.Program, ie *ast.IndexExpr) string {
	return typeKind(p.Info.TypeOf(ie.X))
}

func typeKind(t types.Type) string {
	if t == nil {
		return "?"
	}
	switch u := t.Underlying().(type) {
	case *types.Slice:
		return "slice"
	case *types.Map:
		return "map"
	case *types.Array:
		return "array"
	case *types.Pointer:
		return "pointer"
	case *types.Interface:
		return "interface"
	case *types.Signature:
		return "func"
	case *types.Chan:
		return "chan"
	case *types.Basic:
		if u.Info()&types.IsString != 0 {
			return "string"
		}
		return u.Name()
	}
	return "other"
}

func caseClass(msg string) string {
	switch {
	case strings.HasPrefix(msg, "case nil "):
		return "case-nil-after-interface"
	}
	return "concrete-after-interface"
}
