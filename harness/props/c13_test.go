package props

import (
	"encoding/json"
	"fmt"
	"go/ast"
	"regexp"
	"sort"
	"strings"
	"testing"

	"pgregory.net/rapid"

	"github.com/go-critic/go-critic/linter"

	"verif/harness/core"
	"verif/harness/gen"
)

// locCase is the serialisable form of a C13 case: a package, the index of the transformed file
// and its transformed chunks.
type locCase struct {
	Origin    string         `json:"origin"`
	Checker   string         `json:"checker,omitempty"` // corpus directory == checker under its own expectations
	Files     []core.Source  `json:"files"`             // original package
	File      int            `json:"file"`
	Chunks    []gen.Chunk    `json:"chunks"` // transformed chunk sequence of Files[File]
	Transform map[string]any `json:"transform"`
}

var orderSubjectCheckers = map[string]bool{
	// documented subject is file-level order (imports, type-before-method, file header comments)
	"dupImport": true, "typeDefFirst": true, "codegenComment": true, "commentedOutImport": true,
}

func init() {
	register("C13", prop{
		Run: func(t *testing.T, rec *core.Recorder) {
			env, all := sharedEnv(t)
			check(t, func(rt *rapid.T) {
				defer env.Release()
				lc := drawLocCase(rt, rec, env)
				if lc == nil {
					rt.Skip("no transformable file")
				}
				checkC13(rt, rec, env, all, lc)
			})
		},
		Replay: func(t *testing.T, rec *core.Recorder, raw json.RawMessage) {
			env, all := sharedEnv(t)
			var lc locCase
			if err := json.Unmarshal(raw, &lc); err != nil {
				t.Fatal(err)
			}
			checkC13(t, rec, env, all, &lc)
		},
	})
}

func drawLocCase(rt *rapid.T, rec *core.Recorder, env *gen.Env) *locCase {
	lc := &locCase{}
	var p *core.Program
	if rapid.IntRange(0, 9).Draw(rt, "corpusOrKernels") < 5 {
		progs := env.CorpusPrograms()
		ce := progs[rapid.IntRange(0, len(progs)-1).Draw(rt, "corpusPkg")]
		p = ce.Program()
		lc.Origin = "corpus:" + ce.Name()
		if !strings.HasPrefix(ce.Name(), "_") && ce.Name() != "ruleguard" {
			lc.Checker = ce.Name()
		}
	} else {
		srcs := gen.DrawKernelFile(rt)
		p = env.Load(srcs)
		lc.Origin = "kernels"
		if !p.OK() {
			rejectCounter(rec)("kernels", p.ErrSummary())
			return nil
		}
	}
	lc.Files = gen.Sources(p)
	lc.File = rapid.IntRange(0, len(p.Files)-1).Draw(rt, "file")
	chunks, ok := gen.SplitChunks(p.Fset, p.Files[lc.File], p.Srcs[lc.File])
	if !ok || len(chunks) < 2 {
		rec.Count("unsplittable")
		return nil
	}
	tchunks, tr := gen.DrawTransform(rt, chunks)
	lc.Chunks = tchunks
	lc.Transform = map[string]any{"moved": tr.Moved, "pads": tr.Pads, "appended": tr.Appended}
	return lc
}

var warningDirectiveRE = regexp.MustCompile(`^\s*/\*! (.*) \*/`)

// expectations binds `/*! text */` lines to the next non-directive line, exactly like
// checkers/internal/linttest/end2end.go.
func expectations(text string) map[int][]string {
	ws := map[int][]string{}
	var pending []string
	for i, line := range strings.Split(text, "\n") {
		if m := warningDirectiveRE.FindStringSubmatch(line); m != nil {
			pending = append(pending, m[1])
		} else if len(pending) != 0 {
			ws[i+1] = pending
			pending = nil
		}
	}
	return ws
}

// stripDirectives mirrors linttest.stripDirectives.
func stripDirectives(f *ast.File) {
	for _, cg := range f.Comments {
		for _, c := range cg.List {
			if strings.HasPrefix(c.Text, "/// ") {
				c.Text = "//"
			}
		}
	}
}

var linttestParams = map[string]string{"captLocal.paramsOnly": "false", "commentedOutCode.minLength": "9"}

type relDiag struct {
	Checker string
	RelLine int
	Col     int
	Text    string
}

// perChunk attributes every diagnostic to the chunk containing its line.
func perChunk(diags map[string][]core.Diag, starts []int, chunks []gen.Chunk) map[int][]relDiag {
	out := map[int][]relDiag{}
	for name, ds := range diags {
		if orderSubjectCheckers[name] {
			continue
		}
		for _, d := range ds {
			ci := -1
			for i := range chunks {
				if d.Line >= starts[i] && d.Line < starts[i]+len(chunks[i].Lines) {
					ci = i
				}
			}
			if ci < 0 {
				ci = len(chunks) - 1
			}
			if chunks[ci].Padding {
				continue
			}
			out[chunks[ci].Orig] = append(out[chunks[ci].Orig], relDiag{name, d.Line - starts[ci], d.Col, d.Text})
		}
	}
	for k := range out {
		sort.Slice(out[k], func(i, j int) bool { return fmt.Sprint(out[k][i]) < fmt.Sprint(out[k][j]) })
	}
	return out
}

func checkC13(t core.TB, rec *core.Recorder, env *gen.Env, all *core.Set, lc *locCase) {
	rec.Eval()
	orig := env.Load(lc.Files)
	if !orig.OK() || lc.File >= len(orig.Files) {
		rec.Reject()
		return
	}
	ochunks, ok := gen.SplitChunks(orig.Fset, orig.Files[lc.File], orig.Srcs[lc.File])
	if !ok {
		rec.Reject()
		return
	}
	_, ostarts := gen.JoinChunks(ochunks)
	ttext, tstarts := gen.JoinChunks(lc.Chunks)
	tfiles := append([]core.Source{}, lc.Files...)
	tfiles[lc.File] = core.Source{Name: lc.Files[lc.File].Name, Text: ttext}
	tp := env.Load(tfiles)
	if !tp.OK() {
		// e.g. a corpus package that re-defines `int`; not in the domain
		rec.Reject()
		rec.Count("transformed-rejected")
		rec.Sample("rejected transformation", 1, tp.ErrSummary())
		return
	}
	inPadding := func(line int) bool {
		for i, c := range lc.Chunks {
			if c.Padding && line >= tstarts[i] && line < tstarts[i]+len(c.Lines) {
				return true
			}
		}
		return false
	}
	kindOf := func() string {
		var parts []string
		if m, _ := lc.Transform["moved"].(float64); m > 0 {
			parts = append(parts, "permute")
		} else if m, _ := lc.Transform["moved"].(int); m > 0 {
			parts = append(parts, "permute")
		}
		pads := fmt.Sprint(lc.Transform["pads"])
		if pads != "[]" && pads != "<nil>" {
			parts = append(parts, "pad")
		}
		if a := fmt.Sprint(lc.Transform["appended"]); a != "0" {
			parts = append(parts, "append")
		}
		if len(parts) == 0 {
			return "identity"
		}
		return strings.Join(parts, "+")
	}()

	// (a) the checker's own curated expectations
	nontrivial := false
	if lc.Checker != "" {
		m0, u0, err0 := runOwnExpectationsFixed(env, orig, lc.File, lc.Checker, nil)
		if err0 != nil || len(m0)+len(u0) > 0 {
			rec.Count("baseline-not-clean:" + lc.Checker)
		} else {
			m, u, err := runOwnExpectationsFixed(env, tp, lc.File, lc.Checker, inPadding)
			if err != nil {
				rec.Count("transformed-run-error:" + lc.Checker)
			} else {
				if len(m) > 0 {
					rec.Violation(t, "C13|"+lc.Checker+"|"+kindOf+"|missing",
						fmt.Sprintf("after the transformation (%v) %s no longer reports: %s", lc.Transform, lc.Checker, strings.Join(m, "; ")), lc)
				}
				if len(u) > 0 {
					rec.Violation(t, "C13|"+lc.Checker+"|"+kindOf+"|extra",
						fmt.Sprintf("after the transformation (%v) %s additionally reports: %s", lc.Transform, lc.Checker, strings.Join(u, "; ")), lc)
				}
				if len(expectations(string(orig.Srcs[lc.File]))) > 0 && kindOf != "identity" {
					nontrivial = true
				}
			}
		}
	}

	// (b) metamorphic: per top-level declaration, the multiset of (checker, relative line, column,
	// message) is unchanged
	d0, _ := all.RunAll(orig, lc.File)
	d1, _ := all.RunAll(tp, lc.File)
	r0 := perChunk(d0, ostarts, ochunks)
	r1 := perChunk(d1, tstarts, lc.Chunks)
	keys := map[int]bool{}
	for k := range r0 {
		keys[k] = true
	}
	for k := range r1 {
		keys[k] = true
	}
	for k := range keys {
		a, b := r0[k], r1[k]
		if fmt.Sprint(a) == fmt.Sprint(b) {
			continue
		}
		// first differing entry names the checker
		name, dir := "?", "changed"
		am, bm := map[string]int{}, map[string]int{}
		for _, x := range a {
			am[fmt.Sprint(x)]++
		}
		for _, x := range b {
			bm[fmt.Sprint(x)]++
		}
		detail := ""
		for _, x := range a {
			if am[fmt.Sprint(x)] > bm[fmt.Sprint(x)] {
				name, dir, detail = x.Checker, "missing", fmt.Sprint(x)
				break
			}
		}
		if detail == "" {
			for _, x := range b {
				if bm[fmt.Sprint(x)] > am[fmt.Sprint(x)] {
					name, dir, detail = x.Checker, "extra", fmt.Sprint(x)
					break
				}
			}
		}
		rec.Violation(t, "C13|"+name+"|"+kindOf+"|"+dir,
			fmt.Sprintf("declaration chunk %d: diagnostics changed under transformation %v: %s %s", k, lc.Transform, dir, detail), lc)
	}
	if len(r0) > 0 && kindOf != "identity" {
		nontrivial = true
	}
	rec.Count("transform:" + kindOf)
	if nontrivial {
		rec.Nontrivial(lc.Origin, fmt.Sprint(lc.File), ttext)
		rec.Sample("nontrivial", 3, map[string]any{"origin": lc.Origin, "file": lc.Files[lc.File].Name, "transform": lc.Transform, "own_checker": lc.Checker})
	}
}

// runOwnExpectationsFixed is runOwnExpectations with the file name linttest uses.
func runOwnExpectationsFixed(env *gen.Env, p *core.Program, fi int, checker string, ignore func(line int) bool) (missing, unexpected []string, err error) {
	info := core.InfoByName(checker)
	if info == nil {
		return nil, nil, fmt.Errorf("no checker %s", checker)
	}
	var ws []linter.Warning
	var crash *core.Crash
	gen.WithParams(linttestParams, func() {
		set, e := core.NewSet(env.Fset, []*linter.CheckerInfo{info})
		if e != nil {
			err = e
			return
		}
		set.BindPackage(p)
		stripDirectives(p.Files[fi])
		name := p.Names[fi]
		if i := strings.LastIndexByte(name, '/'); i >= 0 {
			name = name[i+1:]
		}
		set.Ctx.SetFileInfo(name, p.Files[fi])
		ws, crash = core.RunOne(set.Checkers[0], p.Files[fi])
	})
	if err != nil {
		return nil, nil, err
	}
	if crash != nil {
		return nil, nil, fmt.Errorf("crash: %s", crash.Value)
	}
	exp := expectations(string(p.Srcs[fi]))
	matched := map[string]int{}
	for _, w := range ws {
		line := p.Fset.Position(w.Pos).Line
		if ignore != nil && ignore(line) {
			continue
		}
		found := false
		for i, e := range exp[line] {
			key := fmt.Sprintf("%d/%d", line, i)
			if e == w.Text && matched[key] == 0 {
				matched[key]++
				found = true
				break
			}
		}
		if !found {
			unexpected = append(unexpected, fmt.Sprintf("line %d: %s", line, w.Text))
		}
	}
	for line, es := range exp {
		for i, e := range es {
			if matched[fmt.Sprintf("%d/%d", line, i)] == 0 {
				missing = append(missing, fmt.Sprintf("line %d: %s", line, e))
			}
		}
	}
	sort.Strings(missing)
	sort.Strings(unexpected)
	return missing, unexpected, nil
}
