package props

import (
	"fmt"
	"strings"

	"pgregory.net/rapid"

	"verif/harness/core"
	"verif/harness/gen"
)

// truncateCmp.skipArchDependent ("whether to skip int/uint/uintptr types"): a boolean parameter
// has an exact meaning too. A case is a list of truncating comparisons `intN(x) op y`; the type of
// x is written plainly, as a defined type, as an alias or as a defined type over a defined type.
// Reference model: x is architecture dependent iff its underlying type is int, uint or uintptr.
// Oracle: the diagnostics under skipArchDependent=true are exactly those under =false minus the
// ones whose x is architecture dependent - no other line may appear or disappear.

type archOperand struct {
	Form   string `json:"form"`   // plain | defined | alias | defined2 | aliasdefined
	Under  string `json:"under"`  // underlying basic type of x
	Target string `json:"target"` // the truncating conversion
	Op     string `json:"op"`
	Right  bool   `json:"right"` // conversion on the right-hand side
}

var archUnders = []string{"int", "uint", "uintptr", "int", "uint", "int64", "uint64", "int32", "uint32", "int16"}

func drawArchCase(rt *rapid.T, pc *paramCase) {
	pc.Kind = "archskip"
	pc.Checker, pc.Param = "truncateCmp", "skipArchDependent"
	n := rapid.IntRange(2, 8).Draw(rt, "ncmp")
	for i := 0; i < n; i++ {
		o := archOperand{
			Form:  pickT(rt, "form", []string{"plain", "defined", "alias", "defined2", "aliasdefined"}),
			Under: pickT(rt, "under", archUnders),
			Op:    pickT(rt, "op", []string{"<", ">", "<=", ">=", "==", "!="}),
			Right: rapid.Bool().Draw(rt, "right"),
		}
		signed := !strings.HasPrefix(o.Under, "u")
		if signed {
			o.Target = pickT(rt, "target", []string{"int8", "int16", "int32"})
		} else {
			o.Target = pickT(rt, "target", []string{"uint8", "uint16", "uint32"})
		}
		pc.Arch = append(pc.Arch, o)
	}
}

func renderArchCase(ops []archOperand) (string, []int) {
	var sb strings.Builder
	sb.WriteString("package p\n\n")
	line := 3
	lines := make([]int, len(ops))
	for i, o := range ops {
		typ := o.Under
		switch o.Form {
		case "defined":
			fmt.Fprintf(&sb, "type T%d %s\n\n", i, o.Under)
			typ = fmt.Sprintf("T%d", i)
			line += 2
		case "alias":
			fmt.Fprintf(&sb, "type T%d = %s\n\n", i, o.Under)
			typ = fmt.Sprintf("T%d", i)
			line += 2
		case "defined2":
			fmt.Fprintf(&sb, "type B%d %s\n\ntype T%d B%d\n\n", i, o.Under, i, i)
			typ = fmt.Sprintf("T%d", i)
			line += 4
		case "aliasdefined":
			fmt.Fprintf(&sb, "type B%d %s\n\ntype T%d = B%d\n\n", i, o.Under, i, i)
			typ = fmt.Sprintf("T%d", i)
			line += 4
		}
		cmp := fmt.Sprintf("%s(x) %s y", o.Target, o.Op)
		if o.Right {
			cmp = fmt.Sprintf("y %s %s(x)", o.Op, o.Target)
		}
		fmt.Fprintf(&sb, "func f%d(x %s, y %s) bool {\n\treturn %s\n}\n\n", i, typ, o.Target, cmp)
		lines[i] = line + 1
		line += 4
	}
	return sb.String(), lines
}

func checkArchSkip(t core.TB, rec *core.Recorder, env *gen.Env, pc *paramCase) {
	src, lines := renderArchCase(pc.Arch)
	p := env.Load([]core.Source{{Name: "arch.go", Text: src}})
	if !p.OK() {
		rec.Reject()
		rec.Count("archskip-does-not-load")
		return
	}
	key := "truncateCmp.skipArchDependent"
	off, err1 := runChecker(env, "truncateCmp", map[string]string{key: "false"}, p)
	on, err2 := runChecker(env, "truncateCmp", map[string]string{key: "true"}, p)
	if err1 != nil || err2 != nil {
		rec.Count("run-error")
		return
	}
	perLine := func(ds []core.Diag) map[int]int {
		m := map[int]int{}
		for _, d := range ds {
			m[d.Line]++
		}
		return m
	}
	offL, onL := perLine(off[0]), perLine(on[0])
	archHit := false
	for i, o := range pc.Arch {
		arch := o.Under == "int" || o.Under == "uint" || o.Under == "uintptr"
		want := offL[lines[i]]
		if arch {
			if want > 0 {
				archHit = true
			}
			want = 0
		}
		if got := onL[lines[i]]; got != want {
			rec.Violation(t, "C14|"+key+"|exact|"+o.Form,
				fmt.Sprintf("%s: comparison %d (x written as %s over %s, conversion %s) has %d diagnostics with the parameter off and %d with it on; the documented meaning (skip int/uint/uintptr) gives %d\n%s",
					key, i, o.Form, o.Under, o.Target, offL[lines[i]], got, want, src), pc)
		}
	}
	total := 0
	for _, n := range onL {
		total += n
	}
	wantTotal := 0
	for i, o := range pc.Arch {
		if !(o.Under == "int" || o.Under == "uint" || o.Under == "uintptr") {
			wantTotal += offL[lines[i]]
		}
	}
	if total != wantTotal {
		rec.Violation(t, "C14|"+key+"|exact|elsewhere", fmt.Sprintf("%s=true: %d diagnostics, expected %d (lines outside the comparisons?)\n%s", key, total, wantTotal, src), pc)
	}
	if archHit {
		rec.Nontrivial("archskip", fmt.Sprint(pc.Arch))
		rec.Sample("archskip", 2, map[string]any{"operands": pc.Arch, "off": len(off[0]), "on": len(on[0])})
	}
	rec.Count("archskip")
}
