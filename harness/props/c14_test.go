package props

import (
	"encoding/json"
	"fmt"
	"os"
	"path/filepath"
	"regexp"
	"sort"
	"strconv"
	"strings"
	"testing"
	"time"

	"pgregory.net/rapid"

	"github.com/go-critic/go-critic/linter"

	"verif/harness/core"
	"verif/harness/e2e"
	"verif/harness/gen"
	"verif/harness/xrun"
)

// paramCase covers the four oracles of C14; Kind selects one.
type paramCase struct {
	Kind string `json:"kind"` // boundary | monotonic | sizes | plumbing

	// boundary
	Checker   string `json:"checker,omitempty"`
	Param     string `json:"param,omitempty"`
	Measure   int    `json:"measure,omitempty"`
	Threshold int    `json:"threshold,omitempty"`
	Variant   int    `json:"variant,omitempty"`

	// monotonic
	Prog *gen.ProgCase `json:"program,omitempty"`
	T1   int           `json:"t1,omitempty"`
	T2   int           `json:"t2,omitempty"`

	// sizes
	Types []string `json:"types,omitempty"`

	// archskip
	Arch []archOperand `json:"arch,omitempty"`

	// plumbing
	Params   map[string]string `json:"params,omitempty"`
	FrontEnd string            `json:"front_end,omitempty"`
	WS       *e2e.Workspace    `json:"workspace,omitempty"`
}

// thresholdSpec: documented boundary of every numeric threshold (from the usage strings:
// "size in bytes that makes the warning trigger" / "min number ..." => fires iff measure >= t;
// "maximum number of results" => fires iff measure > t).
var thresholdSpec = map[string]struct {
	checker, param string
	fires          func(measure, t int) bool
	render         func(measure, variant int) string // source with a construct of exact measure
	stricterIsLess bool
}{
	"hugeParam.sizeThreshold": {"hugeParam", "sizeThreshold", func(n, t int) bool { return n >= t },
		func(n, v int) string {
			switch v % 3 {
			case 0:
				return fmt.Sprintf("package p\n\nfunc f(x [%d]byte) {}\n", n)
			case 1:
				return fmt.Sprintf("package p\n\ntype T struct{ a [%d]byte }\n\nfunc (t T) m() {}\n", n)
			}
			return fmt.Sprintf("package p\n\nfunc f(x struct{ b [%d]byte }) {}\n", n)
		}, true},
	"rangeValCopy.sizeThreshold": {"rangeValCopy", "sizeThreshold", func(n, t int) bool { return n >= t },
		func(n, v int) string {
			return fmt.Sprintf("package p\n\nfunc f(xs [][%d]byte) {\n\tfor _, x := range xs {\n\t\t_ = x\n\t}\n}\n", n)
		}, true},
	"rangeExprCopy.sizeThreshold": {"rangeExprCopy", "sizeThreshold", func(n, t int) bool { return n >= t },
		func(n, v int) string {
			return fmt.Sprintf("package p\n\nfunc f() {\n\tvar xs [%d]byte\n\tfor _, x := range xs {\n\t\t_ = x\n\t}\n}\n", n)
		}, true},
	"tooManyResultsChecker.maxResults": {"tooManyResultsChecker", "maxResults", func(n, t int) bool { return n > t },
		func(n, v int) string {
			rs := make([]string, n)
			zs := make([]string, n)
			for i := range rs {
				rs[i], zs[i] = "int", "0"
			}
			if n == 0 {
				return "package p\n\nfunc f() {}\n"
			}
			return fmt.Sprintf("package p\n\nfunc f() (%s) { return %s }\n", strings.Join(rs, ", "), strings.Join(zs, ", "))
		}, true},
	"nestingReduce.bodyWidth": {"nestingReduce", "bodyWidth", func(n, t int) bool { return n >= t },
		func(n, v int) string {
			var sb strings.Builder
			sb.WriteString("package p\n\nfunc mark(int) {}\n\nfunc f(xs []int) {\n\tfor _, x := range xs {\n\t\tif x > 0 {\n")
			for i := 0; i < n; i++ {
				fmt.Fprintf(&sb, "\t\t\tmark(%d)\n", i)
			}
			sb.WriteString("\t\t}\n\t}\n}\n")
			return sb.String()
		}, true},
	"ifElseChain.minThreshold": {"ifElseChain", "minThreshold", func(n, t int) bool { return n >= t },
		// measure = number of `else` keywords in one chain (n-1 else-if and a final else)
		func(n, v int) string {
			var sb strings.Builder
			sb.WriteString("package p\n\nfunc mark(int) {}\n\nfunc f(x int) {\n\tif x == 0 {\n\t\tmark(0)\n\t}")
			for i := 1; i < n; i++ {
				fmt.Fprintf(&sb, " else if x == %d {\n\t\tmark(%d)\n\t}", i, i)
			}
			if n >= 1 {
				sb.WriteString(" else {\n\t\tmark(99)\n\t}")
			}
			sb.WriteString("\n}\n")
			return sb.String()
		}, true},
	"commentedOutCode.minLength": {"commentedOutCode", "minLength", func(n, t int) bool { return n >= t },
		// a comment whose text (after "// ") is a call expression of exactly n runes
		func(n, v int) string {
			// the measured text is go/ast's CommentGroup.Text(): "f(" + digits + ")" + newline = 4 + k runes
			if n < 5 {
				n = 5
			}
			arg := strings.Repeat("1", n-4)
			return fmt.Sprintf("package p\n\nfunc f(int) {}\n\nfunc g() {\n\t// f(%s)\n\tf(0)\n}\n", arg)
		}, true},
}

var thresholdKeys = func() []string {
	var ks []string
	for k := range thresholdSpec {
		ks = append(ks, k)
	}
	sort.Strings(ks)
	return ks
}()

func init() {
	register("C14", prop{
		Run: func(t *testing.T, rec *core.Recorder) {
			env, _ := sharedEnv(t)
			// a parameter takes effect in the checker it belongs to and nowhere else
			checkParamCellsIndependent(t, rec, "C14")
			check(t, func(rt *rapid.T) {
				defer env.Release()
				pc := drawParamCase(rt, rec, env)
				checkC14(rt, rec, env, pc)
			})
		},
		Replay: func(t *testing.T, rec *core.Recorder, raw json.RawMessage) {
			env, _ := sharedEnv(t)
			var pc paramCase
			if err := json.Unmarshal(raw, &pc); err != nil {
				t.Fatal(err)
			}
			if pc.Kind == "" {
				checkParamCellsIndependent(t, rec, "C14")
				return
			}
			checkC14(t, rec, env, &pc)
		},
	})
}

var sizeFieldTypes = []string{"bool", "int8", "int16", "int32", "int64", "string", "[]int", "*int", "[3]byte", "interface{}", "complex128",
	"func()", "map[string]int", "chan int", "[2]struct{ a bool; b int64 }", "struct{ x int8; y int32; z int8 }", "float32", "[0]int64", "struct{}", "uintptr", "[5]int16", "error"}

func drawParamCase(rt *rapid.T, rec *core.Recorder, env *gen.Env) *paramCase {
	pc := &paramCase{}
	switch k := rapid.IntRange(0, 99).Draw(rt, "kind"); {
	case k < 45:
		pc.Kind = "boundary"
		key := thresholdKeys[rapid.IntRange(0, len(thresholdKeys)-1).Draw(rt, "threshold-param")]
		spec := thresholdSpec[key]
		pc.Checker, pc.Param = spec.checker, spec.param
		pc.Measure = rapid.IntRange(0, 40).Draw(rt, "measure")
		if key == "commentedOutCode.minLength" && pc.Measure < 5 {
			pc.Measure = 5
		}
		pc.Threshold = pc.Measure + rapid.IntRange(-2, 2).Draw(rt, "delta")
		pc.Variant = rapid.IntRange(0, 2).Draw(rt, "variant")
	case k < 80:
		pc.Kind = "monotonic"
		_, prog := gen.DrawProgram(rt, env, gen.DrawOpts{MaxMuts: 2}, rejectCounter(rec))
		pc.Prog = prog
		key := thresholdKeys[rapid.IntRange(0, len(thresholdKeys)-1).Draw(rt, "threshold-param")]
		spec := thresholdSpec[key]
		pc.Checker, pc.Param = spec.checker, spec.param
		a := pickInt(rt, "t1", []int{0, 1, 2, 3, 4, 5, 6, 8, 16, 32, 64, 80, 128, 129, 512, 1024})
		b := pickInt(rt, "t2", []int{0, 1, 2, 3, 4, 5, 6, 8, 16, 32, 64, 80, 128, 129, 512, 1024})
		if a > b {
			a, b = b, a
		}
		pc.T1, pc.T2 = a, b
	case k < 84:
		drawArchCase(rt, pc)
	case k < 90:
		pc.Kind = "sizes"
		n := rapid.IntRange(3, 12).Draw(rt, "ntypes")
		for i := 0; i < n; i++ {
			nf := rapid.IntRange(1, 6).Draw(rt, "nfields")
			var fs []string
			for j := 0; j < nf; j++ {
				fs = append(fs, fmt.Sprintf("f%d %s", j, pickT(rt, "fieldtype", sizeFieldTypes)))
			}
			pc.Types = append(pc.Types, "struct{ "+strings.Join(fs, "; ")+" }")
		}
	default:
		pc.Kind = "plumbing"
		pc.FrontEnd = pickT(rt, "frontend", []string{"go-critic", "gocritic", "go-critic-analysis"})
		pc.Params = map[string]string{}
		for k, v := range gen.DrawParams(rt) {
			// values the flag package of every front-end accepts
			if n, err := strconv.Atoi(v); err == nil && (n < -1 || n > 1<<30) {
				continue
			}
			pc.Params[k] = v
		}
		ws, _ := gen.DrawWorkspace(rt, gen.WSOpts{MaxPkgs: 1, Kernels: gen.KernelsFor("hugeParam", "rangeValCopy", "rangeExprCopy", "tooManyResultsChecker", "nestingReduce", "ifElseChain", "commentedOutCode", "captLocal", "elseif", "underef", "unnamedResult", "truncateCmp")})
		pc.WS = ws
	}
	return pc
}

func runChecker(env *gen.Env, checker string, params map[string]string, p *core.Program) (map[int][]core.Diag, error) {
	out := map[int][]core.Diag{}
	var err error
	gen.WithParams(params, func() {
		var set *core.Set
		set, err = core.NewSet(env.Fset, []*linter.CheckerInfo{core.InfoByName(checker)})
		if err != nil {
			return
		}
		for fi := range p.Files {
			ds, crashes := set.RunAll(p, fi)
			if len(crashes) > 0 {
				err = fmt.Errorf("crash: %s", crashes[0].Value)
				return
			}
			out[fi] = ds[checker]
		}
	})
	return out, err
}

var reBytes = regexp.MustCompile(`\((\d+) bytes\)`)

func checkC14(t core.TB, rec *core.Recorder, env *gen.Env, pc *paramCase) {
	rec.Eval()
	key := pc.Checker + "." + pc.Param
	switch pc.Kind {
	case "boundary":
		spec, ok := thresholdSpec[key]
		if !ok {
			return
		}
		src := spec.render(pc.Measure, pc.Variant)
		p := env.Load([]core.Source{{Name: "b.go", Text: src}})
		if !p.OK() {
			rec.Reject()
			return
		}
		ds, err := runChecker(env, pc.Checker, map[string]string{key: fmt.Sprint(pc.Threshold)}, p)
		if err != nil {
			rec.Count("run-error")
			return
		}
		fired := len(ds[0])
		want := spec.fires(pc.Measure, pc.Threshold)
		if (fired > 0) != want {
			rec.Violation(t, "C14|"+key+"|boundary",
				fmt.Sprintf("%s=%d on a construct measuring exactly %d: %d diagnostics, the documented boundary says fires=%v\n%s", key, pc.Threshold, pc.Measure, fired, want, src), pc)
		}
		if fired > 1 {
			rec.Violation(t, "C14|"+key+"|reported-more-than-once",
				fmt.Sprintf("%s=%d: one construct of measure %d is reported %d times: %v\n%s", key, pc.Threshold, pc.Measure, fired, ds[0], src), pc)
		}
		d := pc.Threshold - pc.Measure
		if d >= -1 && d <= 1 {
			rec.Nontrivial("boundary", key, fmt.Sprint(pc.Measure, pc.Threshold, pc.Variant))
			rec.Sample("boundary", 3, map[string]any{"param": key, "measure": pc.Measure, "threshold": pc.Threshold, "fired": fired})
		}
		rec.Count("boundary:" + key)
	case "monotonic":
		if pc.Prog == nil {
			return
		}
		p := env.Load(pc.Prog.Files)
		if !p.OK() {
			rec.Reject()
			return
		}
		strict, err1 := runChecker(env, pc.Checker, map[string]string{key: fmt.Sprint(pc.T1)}, p)
		relaxed, err2 := runChecker(env, pc.Checker, map[string]string{key: fmt.Sprint(pc.T2)}, p)
		if err1 != nil || err2 != nil {
			rec.Count("run-error")
			return
		}
		total := 0
		for fi := range p.Files {
			have := map[int]int{}
			for _, d := range strict[fi] {
				have[d.Offset]++
			}
			total += len(strict[fi])
			for _, d := range relaxed[fi] {
				if have[d.Offset] == 0 {
					rec.Violation(t, "C14|"+key+"|monotonic",
						fmt.Sprintf("%s: relaxing the threshold from %d to %d ADDS a diagnostic: %s", key, pc.T1, pc.T2, d.String()), pc)
				} else {
					have[d.Offset]--
				}
			}
		}
		if total > 0 && pc.T1 != pc.T2 {
			rec.Nontrivial("monotonic", key, pc.Prog.Key(), fmt.Sprint(pc.T1, pc.T2))
		}
		rec.Count("monotonic:" + key)
	case "sizes":
		checkSizes(t, rec, env, pc)
	case "archskip":
		checkArchSkip(t, rec, env, pc)
	case "plumbing":
		checkPlumbing(t, rec, env, pc)
	}
}

var c14Counter int

// checkSizes: the "(N bytes)" quoted by hugeParam equals unsafe.Sizeof printed by a compiled
// program over the same types.
func checkSizes(t core.TB, rec *core.Recorder, env *gen.Env, pc *paramCase) {
	var lint, prog strings.Builder
	lint.WriteString("package p\n\n")
	prog.WriteString("package main\n\nimport (\n\t\"fmt\"\n\t\"unsafe\"\n)\n\n")
	for i, ty := range pc.Types {
		fmt.Fprintf(&lint, "type T%d %s\n\nfunc f%d(x T%d) {}\n\n", i, ty, i, i)
		fmt.Fprintf(&prog, "type T%d %s\n\n", i, ty)
	}
	// the same types once more as function-local types that all share ONE name (distinct types
	// with equal spelling), measured through rangeValCopy
	for i, ty := range pc.Types {
		fmt.Fprintf(&lint, "func loc%d() {\n\ttype rec %s\n\tvar xs []rec\n\tfor _, x := range xs {\n\t\t_ = x\n\t}\n}\n\n", i, ty)
	}
	prog.WriteString("func main() {\n")
	for i := range pc.Types {
		fmt.Fprintf(&prog, "\tfmt.Println(unsafe.Sizeof(T%d{}))\n", i)
	}
	prog.WriteString("}\n")
	p := env.Load([]core.Source{{Name: "s.go", Text: lint.String()}})
	if !p.OK() {
		rec.Reject()
		return
	}
	ds, err := runChecker(env, "hugeParam", map[string]string{"hugeParam.sizeThreshold": "1"}, p)
	if err != nil {
		rec.Count("run-error")
		return
	}
	c14Counter++
	res := xrun.Run(xrun.Scratch(env.Work, c14Counter), map[string]string{"main.go": prog.String()}, 2*time.Minute)
	if !res.BuildOK || res.Exit != 0 {
		rec.Inconclusive("C14 sizes: program did not build/run: " + head200(res.BuildOut+res.RunErr))
		return
	}
	real := strings.Fields(res.RunOut)
	if len(real) != len(pc.Types) {
		rec.Inconclusive("C14 sizes: unexpected program output")
		return
	}
	quoted := map[int]string{} // line -> N
	for _, d := range ds[0] {
		if m := reBytes.FindStringSubmatch(d.Text); m != nil {
			quoted[d.Line] = m[1]
		}
	}
	for i := range pc.Types {
		line := 3 + i*4 + 2 // "type Ti" at 3+4i, func at +2
		q, ok := quoted[line]
		if real[i] == "0" {
			continue // zero-sized: below every threshold >= 1
		}
		if !ok {
			rec.Violation(t, "C14|hugeParam.sizeThreshold|size|not-reported", fmt.Sprintf("type %s has %s bytes but hugeParam(sizeThreshold=1) did not report it", pc.Types[i], real[i]), pc)
			continue
		}
		if q != real[i] {
			rec.Violation(t, "C14|hugeParam.sizeThreshold|size|wrong", fmt.Sprintf("type %s: message says %s bytes, unsafe.Sizeof says %s", pc.Types[i], q, real[i]), pc)
		}
		if strings.Count(pc.Types[i], ";") >= 1 {
			rec.Nontrivial("size", pc.Types[i])
		}
	}
	// local same-named types: "each iteration copies N bytes"
	rv, err := runChecker(env, "rangeValCopy", map[string]string{"rangeValCopy.sizeThreshold": "1"}, p)
	if err == nil {
		copies := map[int]string{}
		reCopies := regexp.MustCompile(`copies (\d+) bytes`)
		for _, d := range rv[0] {
			if m := reCopies.FindStringSubmatch(d.Text); m != nil {
				copies[d.Line] = m[1]
			}
		}
		base := 3 + len(pc.Types)*4
		for i := range pc.Types {
			line := base + i*8 + 3 // the for statement of loc<i>
			if real[i] == "0" {
				continue
			}
			q, ok := copies[line]
			if !ok {
				rec.Violation(t, "C14|rangeValCopy.sizeThreshold|size|not-reported", fmt.Sprintf("local type rec = %s has %s bytes but rangeValCopy(sizeThreshold=1) did not report ranging over it (function loc%d)", pc.Types[i], real[i], i), pc)
			} else if q != real[i] {
				rec.Violation(t, "C14|rangeValCopy.sizeThreshold|size|wrong", fmt.Sprintf("local type rec = %s in loc%d: message says %s bytes, unsafe.Sizeof says %s", pc.Types[i], i, q, real[i]), pc)
			}
		}
	}
	rec.Sample("sizes", 2, map[string]any{"types": pc.Types, "sizes": real})
	rec.Count("sizes-batches")
}

// checkPlumbing: a value given on the command line / through analyzer flags is the value the
// checker uses: the front-end's output equals the in-process expectation under the same
// registry override.
func checkPlumbing(t core.TB, rec *core.Recorder, env *gen.Env, pc *paramCase) {
	if e2e.BinDir() == "" || pc.WS == nil {
		return
	}
	c16Counter++
	root := filepath.Join(env.Work, fmt.Sprintf("c14-%d", c16Counter))
	os.RemoveAll(root)
	if err := pc.WS.Materialize(root); err != nil {
		rec.Inconclusive("C14 materialize: " + err.Error())
		return
	}
	defer os.RemoveAll(root)
	sel := selection{EnableAll: true}
	cfg := runCfg{Sel: sel, Params: pc.Params, CheckTests: true, CheckGenerated: true}
	run := &wsRun{Root: root, WS: pc.WS, Meta: &gen.WSMeta{IsTest: map[string]bool{}, IsGenerated: map[string]bool{}}}
	want, err := run.expect(env, cfg)
	if err != nil {
		rec.Reject()
		return
	}
	var args []string
	if strings.HasSuffix(pc.FrontEnd, "-analysis") {
		args = append(args, sel.analyzerArgs()...)
	} else {
		args = append(args, "check")
		args = append(args, sel.cliArgs()...)
		args = append(args, "-checkGenerated=true", "-shorterErrLocation=false")
	}
	args = append(args, paramArgs(pc.Params)...)
	args = append(args, "./...")
	res := e2e.Run(e2e.Bin(pc.FrontEnd), args, root, e2e.BaseEnv(), 3*time.Minute)
	if res.TimedOut || e2e.HasCrashTrace(res.Out) {
		rec.Inconclusive("C14 plumbing: front-end failed: " + head200(res.Out))
		return
	}
	got, _ := e2e.ParseLines(res.Out)
	for i := range got {
		if !filepath.IsAbs(got[i].File) {
			got[i].File = filepath.Join(root, got[i].File)
		}
	}
	paramCheckers := map[string]bool{}
	for k := range pc.Params {
		paramCheckers[k[:strings.IndexByte(k, '.')]] = true
	}
	filter := func(ls []e2e.Line) []e2e.Line {
		var out []e2e.Line
		for _, l := range ls {
			if paramCheckers[l.Checker] {
				out = append(out, l)
			}
		}
		return out
	}
	missing, extra := diffKeys(e2e.SortedKeys(filter(want)), e2e.SortedKeys(filter(got)))
	if len(missing) > 0 || len(extra) > 0 {
		name := "?"
		if len(missing) > 0 {
			name = checkerOfKey(missing[0])
		} else {
			name = checkerOfKey(extra[0])
		}
		rec.Violation(t, "C14|"+name+"|plumbing|"+pc.FrontEnd,
			fmt.Sprintf("%s with %v does not behave like the checker constructed with these values in-process\nmissing: %v\nextra: %v\ncommand: %s", pc.FrontEnd, pc.Params, trimLines(missing, 4), trimLines(extra, 4), res.Cmd), pc)
	}
	if len(pc.Params) > 0 {
		rec.Nontrivial("plumbing", pc.FrontEnd, fmt.Sprint(pc.Params), fmt.Sprint(pc.WS.Files))
		rec.Sample("plumbing", 2, map[string]any{"cmd": res.Cmd, "lines": len(got)})
	}
	rec.Count("plumbing:" + pc.FrontEnd)
}
