package props

import (
	"bufio"
	"encoding/json"
	"fmt"
	"os"
	"path/filepath"
	"regexp"
	"runtime"
	"sort"
	"strings"
	"sync"
	"testing"

	"pgregory.net/rapid"

	"github.com/go-critic/go-critic/linter"

	"verif/harness/core"
	"verif/harness/gen"
)

type verCase struct {
	gen.ProgCase
	Version string `json:"version"`
}

// apiIndex: first Go minor version of std functions ("strings.Cut") and methods
// ("Time.UnixMilli", and by bare method name the minimum over all receiver types).
type apiIndex struct {
	funcs   map[string]int
	methods map[string]int // "Type.Method"
	byName  map[string]int // "Method" -> min over receivers
	pkgs    map[string]bool
}

var (
	apiOnce sync.Once
	apiIdx  *apiIndex

	reAPIFile   = regexp.MustCompile(`go1(?:\.(\d+))?\.txt$`)
	reAPIFunc   = regexp.MustCompile(`^pkg ([\w/]+)(?: \([\w-]+\))?, func (\w+)[\[(]`)
	reAPIMethod = regexp.MustCompile(`^pkg ([\w/]+)(?: \([\w-]+\))?, method \(\*?(\w+)(?:\[[^\]]*\])?\) (\w+)\(`)
)

func loadAPIIndex() *apiIndex {
	apiOnce.Do(func() {
		idx := &apiIndex{funcs: map[string]int{}, methods: map[string]int{}, byName: map[string]int{}, pkgs: map[string]bool{}}
		files, _ := filepath.Glob(filepath.Join(runtime.GOROOT(), "api", "go1*.txt"))
		for _, f := range files {
			m := reAPIFile.FindStringSubmatch(f)
			if m == nil {
				continue
			}
			ver := 0
			fmt.Sscan(m[1], &ver)
			fh, err := os.Open(f)
			if err != nil {
				continue
			}
			sc := bufio.NewScanner(fh)
			sc.Buffer(make([]byte, 1<<20), 1<<20)
			put := func(mp map[string]int, k string) {
				if old, ok := mp[k]; !ok || ver < old {
					mp[k] = ver
				}
			}
			for sc.Scan() {
				line := sc.Text()
				if mm := reAPIFunc.FindStringSubmatch(line); mm != nil {
					short := mm[1]
					if i := strings.LastIndexByte(short, '/'); i >= 0 {
						short = short[i+1:]
					}
					idx.pkgs[short] = true
					put(idx.funcs, short+"."+mm[2])
				} else if mm := reAPIMethod.FindStringSubmatch(line); mm != nil {
					put(idx.methods, mm[2]+"."+mm[3])
					put(idx.byName, mm[3])
				}
			}
			fh.Close()
		}
		apiIdx = idx
	})
	return apiIdx
}

var (
	rePkgFunc       = regexp.MustCompile(`\b([a-z][a-z0-9]*)\.([A-Z]\w*)`)
	reTypeMethod    = regexp.MustCompile(`\b([A-Z]\w*)\.([A-Z]\w*)`)
	reMethodCall    = regexp.MustCompile(`\.([A-Z]\w*)\(`)
	reMethodMention = regexp.MustCompile(`\.([A-Z]\w*)\b(?:[^(\w]|$)`)
	reOctal         = regexp.MustCompile(`\b0[oO][0-7]`)
)

// recommendations extracts (api, first version) pairs mentioned in text but not in src.
func recommendations(idx *apiIndex, text, src string) map[string]int {
	out := map[string]int{}
	for _, m := range rePkgFunc.FindAllStringSubmatch(text, -1) {
		k := m[1] + "." + m[2]
		if v, ok := idx.funcs[k]; ok && !strings.Contains(src, k) {
			out[k] = v
		}
	}
	for _, m := range reTypeMethod.FindAllStringSubmatch(text, -1) {
		k := m[1] + "." + m[2]
		if v, ok := idx.methods[k]; ok && !strings.Contains(src, "."+m[2]+"(") {
			out[k] = v
		}
	}
	for _, m := range reMethodCall.FindAllStringSubmatch(text, -1) {
		if v, ok := idx.byName[m[1]]; ok && !strings.Contains(src, "."+m[1]+"(") {
			// only a method (not pkg.Func) mention
			if _, isFunc := out[funcKeyBefore(text, m[1])]; !isFunc {
				out["."+m[1]+"()"] = v
			}
		}
	}
	// a method named without a call ("use m.LoadAndDelete to ..."): only when the source does not mention
	// the name at all, so that quoted user code never counts
	for _, m := range reMethodMention.FindAllStringSubmatch(text, -1) {
		if v, ok := idx.byName[m[1]]; ok && !strings.Contains(src, "."+m[1]) {
			if _, isFunc := out[funcKeyBefore(text, m[1])]; !isFunc {
				if _, seen := out["."+m[1]+"()"]; !seen {
					out["."+m[1]] = v
				}
			}
		}
	}
	if reOctal.MatchString(text) && !reOctal.MatchString(src) {
		out["0o literal"] = 13
	}
	return out
}

// funcKeyBefore returns "pkg.Name" if text contains pkg.Name( for a package identifier.
func funcKeyBefore(text, name string) string {
	for _, m := range rePkgFunc.FindAllStringSubmatch(text, -1) {
		if m[2] == name {
			return m[1] + "." + m[2]
		}
	}
	return ""
}

func init() {
	register("C15", prop{
		Run: func(t *testing.T, rec *core.Recorder) {
			env, all := sharedEnv(t)
			idx := loadAPIIndex()
			if len(idx.funcs) < 1500 || idx.funcs["strings.Cut"] != 18 || idx.methods["Time.UnixMilli"] != 17 {
				rec.Inconclusive(fmt.Sprintf("API index has only %d functions (GOROOT/api missing?)", len(idx.funcs)))
				return
			}
			checkVersionParser(t, rec)
			check(t, func(rt *rapid.T) {
				defer env.Release()
				p, pc := gen.DrawProgram(rt, env, gen.DrawOpts{MaxMuts: 2}, rejectCounter(rec))
				minor := rapid.IntRange(13, 25).Draw(rt, "minor") // the property quantifies over targets from 1.13
				v := fmt.Sprintf("1.%d", minor)
				if rapid.Bool().Draw(rt, "goPrefix") {
					v = "go" + v
				}
				checkC15(rt, rec, all, p, &verCase{ProgCase: *pc, Version: v})
			})
		},
		Replay: func(t *testing.T, rec *core.Recorder, raw json.RawMessage) {
			env, all := sharedEnv(t)
			var vc verCase
			if err := json.Unmarshal(raw, &vc); err != nil {
				t.Fatal(err)
			}
			if len(vc.Files) == 0 {
				checkVersionParser(t, rec)
				return
			}
			p := env.Load(vc.Files)
			if !p.OK() {
				t.Skipf("replay case is not well-typed any more: %s", p.ErrSummary())
			}
			checkC15(t, rec, all, p, &vc)
		},
	})
}

// checkVersionParser: accepted strings are interpreted by numeric comparison of major and minor;
// goX.Y == X.Y.
func checkVersionParser(t core.TB, rec *core.Recorder) {
	for m := 0; m <= 30; m++ {
		for n := 0; n <= 30; n++ {
			rec.Eval()
			a, err1 := linter.ParseGoVersion(fmt.Sprintf("1.%d", n))
			b, err2 := linter.ParseGoVersion(fmt.Sprintf("go1.%d", m))
			b2, err3 := linter.ParseGoVersion(fmt.Sprintf("1.%d", m))
			if err1 != nil || err2 != nil || err3 != nil {
				rec.Violation(t, "C15|version-parser|rejects", fmt.Sprintf("1.%d / go1.%d rejected: %v %v %v", n, m, err1, err2, err3), map[string]int{"n": n, "m": m})
				continue
			}
			if b != b2 {
				rec.Violation(t, "C15|version-parser|go-prefix", fmt.Sprintf("go1.%d parsed as %v but 1.%d as %v", m, b, m, b2), map[string]int{"m": m})
			}
			if a.GreaterOrEqual(b) != (n >= m) {
				rec.Violation(t, "C15|version-parser|comparison", fmt.Sprintf("1.%d >= 1.%d evaluated to %v", n, m, a.GreaterOrEqual(b)), map[string]int{"n": n, "m": m})
			}
			if n >= 9 && m < 9 {
				rec.Nontrivial("parser", fmt.Sprint(n, m)) // crosses the 1.9 / 1.10 lexical trap
			}
		}
	}
	// major versions
	two, _ := linter.ParseGoVersion("2.0")
	one, _ := linter.ParseGoVersion("1.30")
	if !two.GreaterOrEqual(one) || one.GreaterOrEqual(two) {
		rec.Violation(t, "C15|version-parser|major", "2.0 vs 1.30 compared wrongly", map[string]string{"a": "2.0", "b": "1.30"})
	}
}

func runAtVersion(all *core.Set, p *core.Program, v string) (map[string][]cmpDiag, error) {
	gv, err := linter.ParseGoVersion(v)
	if err != nil {
		return nil, err
	}
	old := all.Ctx.GoVersion
	all.Ctx.GoVersion = gv
	defer func() { all.Ctx.GoVersion = old }()
	out := map[string][]cmpDiag{}
	for fi := range p.Files {
		ds, _ := all.RunAll(p, fi)
		for n, d := range ds {
			for _, x := range toCmp(d) {
				x.Line += fi * 100000 // keep files apart
				out[n] = append(out[n], x)
			}
		}
	}
	return out, nil
}

func checkC15(t core.TB, rec *core.Recorder, all *core.Set, p *core.Program, vc *verCase) {
	rec.Eval()
	idx := loadAPIIndex()
	var src strings.Builder
	for _, s := range p.Srcs {
		src.Write(s)
	}
	source := src.String()
	unbounded, err := runAtVersion(all, p, "")
	if err != nil {
		rec.Inconclusive(err.Error())
		return
	}
	newest, _ := runAtVersion(all, p, "1.99")
	// no version == newest version
	names := map[string]bool{}
	for n := range unbounded {
		names[n] = true
	}
	for n := range newest {
		names[n] = true
	}
	var sorted []string
	for n := range names {
		sorted = append(sorted, n)
	}
	sort.Strings(sorted)
	for _, n := range sorted {
		if d := diffDiags(unbounded[n], newest[n]); d != "" {
			rec.Violation(t, "C15|"+n+"|no-version-differs-from-newest", fmt.Sprintf("checker %s: no version vs 1.99: %s", n, d), vc)
		}
	}
	at, err := runAtVersion(all, p, vc.Version)
	if err != nil {
		rec.Inconclusive(err.Error())
		return
	}
	var minor int
	fmt.Sscanf(strings.TrimPrefix(vc.Version, "go"), "1.%d", &minor)
	// which newer APIs does the program provoke at all?
	provoked := map[string]int{}
	for _, n := range sorted {
		for _, d := range unbounded[n] {
			for api, v := range recommendations(idx, d.Text+" "+d.Fix, source) {
				if v > 13 {
					provoked[n+"|"+api] = v
				}
			}
		}
	}
	for n, ds := range at {
		for _, d := range ds {
			for api, v := range recommendations(idx, d.Text+" "+d.Fix, source) {
				if v > minor {
					rec.Violation(t, fmt.Sprintf("C15|%s|%s|go1.%d", n, api, v),
						fmt.Sprintf("target version %s but %s recommends %s (introduced in go1.%d): %s", vc.Version, n, api, v, d.Text), vc)
				}
			}
		}
	}
	for k, v := range provoked {
		rec.Count("gated-api:" + k)
		if minor < v {
			rec.Nontrivial(k, vc.Key(), vc.Version)
			rec.Sample("nontrivial", 4, map[string]any{"version": vc.Version, "api": k, "introduced": v, "origin": vc.Origin})
		}
	}
}
