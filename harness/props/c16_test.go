package props

import (
	"encoding/json"
	"fmt"
	"os"
	"path/filepath"
	"strings"
	"testing"
	"time"

	"pgregory.net/rapid"

	"verif/harness/core"
	"verif/harness/e2e"
	"verif/harness/gen"
)

type cliCase struct {
	WS       *e2e.Workspace `json:"workspace"`
	Meta     *gen.WSMeta    `json:"meta"`
	Layout   string         `json:"layout"` // mod-root | mod-sub | gopath-inside | nested-repeat
	Binary   string         `json:"binary"` // go-critic | gocritic
	ExitCode int            `json:"exit_code"`
	Shorter  bool           `json:"shorter_err_location"`
	Cfg      runCfg         `json:"config"`
	// OddDir is appended to the name of the directory that holds the workspace and the GOPATH:
	// characters that are legal in directory names but special to format strings, URLs and shells
	OddDir string `json:"odd_dir,omitempty"`
}

// space- and colon-free (the output parser splits locations at those), legal on Linux and accepted by the go command
var oddDirs = []string{"", "", "", "-100%", "-My%20Projects", "-a%sb%d", "-%v", "-%!x(MISSING)", "-ünï", "-a+b=c", "-~t", "-a+b", "-v1.2_x", "-x,y", "-[1]", "-{a}", "-q'r", "-#h"}

func init() {
	register("C16", prop{
		Run: func(t *testing.T, rec *core.Recorder) {
			env, _ := sharedEnv(t)
			check(t, func(rt *rapid.T) {
				defer env.Release()
				cc := drawCLICase(rt)
				checkC16(rt, rec, env, cc)
			})
		},
		Replay: func(t *testing.T, rec *core.Recorder, raw json.RawMessage) {
			env, _ := sharedEnv(t)
			var cc cliCase
			if err := json.Unmarshal(raw, &cc); err != nil {
				t.Fatal(err)
			}
			checkC16(t, rec, env, &cc)
		},
	})
}

func drawSelection(rt *rapid.T) selection {
	switch rapid.IntRange(0, 7).Draw(rt, "selkind") {
	case 6, 7:
		// names and tags overlapping: some checkers enabled by name while one of their tags is disabled
		reg := core.Registry()
		sel := selection{HasEnable: true, HasDis: true}
		n := rapid.IntRange(2, 6).Draw(rt, "nnames")
		for i := 0; i < n; i++ {
			in := reg[rapid.IntRange(0, len(reg)-1).Draw(rt, "selname")]
			sel.Enable = append(sel.Enable, in.Name)
			if i == 0 && len(in.Tags) > 0 {
				sel.Disable = append(sel.Disable, "#"+in.Tags[rapid.IntRange(0, len(in.Tags)-1).Draw(rt, "seltag")])
			}
		}
		sel.Enable = append(sel.Enable, "#"+pickT(rt, "selEnableTag", []string{"diagnostic", "style", "performance"}), "dupSubExpr", "assignOp", "hugeParam")
		if rapid.Bool().Draw(rt, "disableName") {
			sel.Disable = append(sel.Disable, sel.Enable[rapid.IntRange(0, n-1).Draw(rt, "disname")])
		}
		return sel
	case 0:
		return selection{} // front-end default
	case 1, 2:
		return selection{EnableAll: true}
	case 3:
		return selection{HasEnable: true, Enable: []string{"#diagnostic", "#style"}, HasDis: true, Disable: []string{"#experimental"}}
	case 4:
		return selection{EnableAll: true, HasDis: true, Disable: []string{"#opinionated", "commentedOutCode"}}
	}
	return selection{HasEnable: true, Enable: []string{"#performance", "sloppyLen", "assignOp", "dupSubExpr", "commentFormatting"}}
}

func drawCLICase(rt *rapid.T) *cliCase {
	ws, meta := gen.DrawWorkspace(rt, gen.WSOpts{MaxPkgs: 3, Tests: true, GeneratedFiles: true, Main: true, Kernels: e2eKernels()})
	cc := &cliCase{WS: ws, Meta: meta}
	cc.Layout = pickT(rt, "layout", []string{"mod-root", "mod-root", "mod-sub", "gopath-inside", "nested-repeat", "nested-repeat", "gopath-repeat", "gopath-repeat"})
	cc.Binary = pickT(rt, "binary", []string{"go-critic", "gocritic"})
	cc.ExitCode = pickInt(rt, "exitCode", []int{1, 1, 0, 2, 3, 42, 125, 255})
	cc.Shorter = rapid.IntRange(0, 3).Draw(rt, "shorter") != 0
	cc.Cfg = runCfg{Sel: drawSelection(rt), CheckTests: rapid.Bool().Draw(rt, "checkTests"), CheckGenerated: rapid.Bool().Draw(rt, "checkGenerated")}
	cc.OddDir = pickT(rt, "oddDir", oddDirs)
	return cc
}

func pickInt(rt *rapid.T, label string, xs []int) int {
	return xs[rapid.IntRange(0, len(xs)-1).Draw(rt, label)]
}

// cliEnvLayout places the workspace according to the layout and returns (root, cwd, targets, gopath).
func cliLayout(env *gen.Env, cc *cliCase, id int) (ws *e2e.Workspace, root, cwd string, targets []string, gopath string) {
	odd := cc.OddDir
	if cc.Layout == "nested-repeat" && !importPathSafe(odd) {
		// this layout repeats the working directory's path below the module root, so the name becomes
		// an import path element; the go command refuses elements with other characters (the package
		// is then not loaded at all, which is not the command's doing)
		odd = ""
	}
	base := filepath.Join(env.Work, fmt.Sprintf("c16-%d%s", id, odd))
	os.RemoveAll(base)
	ws = &e2e.Workspace{Module: cc.WS.Module, Files: append([]e2e.File{}, cc.WS.Files...)}
	dirs := cc.WS.PackageDirs()
	first := dirs[0]
	switch cc.Layout {
	case "mod-sub":
		root = filepath.Join(base, "ws")
		cwd = filepath.Join(root, first)
		targets = []string{"./..."}
		for _, d := range dirs[1:] {
			rel, _ := filepath.Rel(first, d)
			targets = append(targets, rel)
		}
		gopath = filepath.Join(base, "gopath")
	case "gopath-inside":
		gopath = filepath.Join(base, "gp")
		root = filepath.Join(gopath, "src", "verifws")
		cwd = root
		targets = []string{"./..."}
	case "gopath-repeat":
		// the GOPATH directory string occurs a second time inside the path of the workspace, and the
		// files of sibling packages are not below the working directory ($GOPATH form is printed)
		gopath = filepath.Join(base, "gp")
		root = filepath.Join(gopath, "src", strings.TrimPrefix(gopath, "/"), "ws")
		cwd = filepath.Join(root, first)
		targets = []string{"./..."}
		for _, d := range dirs[1:] {
			rel, _ := filepath.Rel(first, d)
			targets = append(targets, rel)
		}
	case "nested-repeat":
		// a package whose absolute path contains the working directory's path in the middle
		root = filepath.Join(base, "ws")
		cwd = filepath.Join(root, first)
		targets = []string{"./..."}
		if len(dirs) > 1 {
			moved := dirs[len(dirs)-1]
			deep := filepath.Join("outer", strings.TrimPrefix(cwd, "/"), "deep")
			for i, f := range ws.Files {
				if filepath.Dir(f.Path) == moved {
					ws.Files[i].Path = filepath.Join(deep, filepath.Base(f.Path))
				}
			}
			for _, d := range dirs[1 : len(dirs)-1] {
				rel, _ := filepath.Rel(first, d)
				targets = append(targets, rel)
			}
			rel, _ := filepath.Rel(first, deep)
			targets = append(targets, rel)
		}
		gopath = filepath.Join(base, "gopath")
	default:
		root = filepath.Join(base, "ws")
		cwd = root
		targets = []string{"./..."}
		gopath = filepath.Join(base, "gopath")
	}
	return
}

// importPathSafe: golang.org/x/mod/module.CheckImportPath accepts ASCII letters, digits and - . _ ~ +
func importPathSafe(s string) bool {
	for _, r := range s {
		switch {
		case r >= 'a' && r <= 'z', r >= 'A' && r <= 'Z', r >= '0' && r <= '9':
		case strings.ContainsRune("-._~+", r):
		default:
			return false
		}
	}
	return true
}

var c16Counter int

func checkC16(t core.TB, rec *core.Recorder, env *gen.Env, cc *cliCase) {
	rec.Eval()
	if e2e.BinDir() == "" {
		rec.Inconclusive("C16 needs VERIF_BIN")
		return
	}
	c16Counter++
	ws, root, cwd, targets, gopath := cliLayout(env, cc, c16Counter)
	base := filepath.Dir(root)
	if cc.Layout == "gopath-inside" {
		base = filepath.Dir(filepath.Dir(filepath.Dir(root)))
	}
	if cc.Layout == "gopath-repeat" {
		base = filepath.Dir(gopath)
	}
	defer os.RemoveAll(base)
	// meta follows moved files
	meta := &gen.WSMeta{IsTest: map[string]bool{}, IsGenerated: map[string]bool{}}
	for i, f := range ws.Files {
		orig := cc.WS.Files[i].Path
		meta.IsTest[f.Path] = cc.Meta.IsTest[orig]
		meta.IsGenerated[f.Path] = cc.Meta.IsGenerated[orig]
	}
	if err := ws.Materialize(root); err != nil {
		rec.Inconclusive("C16 materialize: " + err.Error())
		return
	}
	os.MkdirAll(gopath, 0o755)
	run := &wsRun{Root: root, WS: ws, Meta: meta}
	want, err := run.expect(env, cc.Cfg)
	if err != nil {
		rec.Reject()
		rec.Count("expectation-error")
		rec.Sample("expectation error", 1, err.Error())
		return
	}
	args := []string{"check"}
	args = append(args, cc.Cfg.Sel.cliArgs()...)
	args = append(args, fmt.Sprintf("-exitCode=%d", cc.ExitCode), fmt.Sprintf("-checkTests=%v", cc.Cfg.CheckTests),
		fmt.Sprintf("-checkGenerated=%v", cc.Cfg.CheckGenerated), fmt.Sprintf("-shorterErrLocation=%v", cc.Shorter))
	args = append(args, targets...)
	goroot := goRoot()
	res := e2e.Run(e2e.Bin(cc.Binary), args, cwd, e2e.BaseEnv("GOPATH="+gopath), 3*time.Minute)
	if res.TimedOut {
		rec.Inconclusive("C16: front-end run timed out")
		return
	}
	got, other := e2e.ParseLines(res.Out)
	sigBase := "C16|"
	layoutClass := cc.Layout
	fail := func(clause, msg string) {
		rec.Violation(t, sigBase+clause+"|"+layoutClass, fmt.Sprintf("%s\ncommand (cwd %s, GOPATH %s): %s\n%s", msg, cwd, gopath, res.Cmd, indentOut(res.Out, 30)), cc)
	}
	if e2e.HasCrashTrace(res.Out) {
		fail("crash", "the command crashed")
		return
	}
	if len(got) == 0 && len(want) > 0 && len(other) > 0 && res.Exit != 0 && res.Exit != cc.ExitCode {
		// load error or similar: not this property's subject, but must not be silent
		rec.Count("non-diagnostic-failure")
		rec.Sample("non-diagnostic failure", 2, map[string]any{"cmd": res.Cmd, "out": head200(res.Out)})
		return
	}
	// exit status
	wantExit := 0
	if len(got) > 0 {
		wantExit = cc.ExitCode
	}
	if res.Exit != wantExit {
		fail("exit", fmt.Sprintf("exit status %d, want %d (%d diagnostic lines, -exitCode=%d)", res.Exit, wantExit, len(got), cc.ExitCode))
	}
	// locations resolve to the real file
	for i := range got {
		abs := e2e.Expand(got[i].Loc, cwd, gopath, goroot)
		if !cc.Shorter && abs != got[i].Loc {
			fail("location", fmt.Sprintf("location %q is shortened although -shorterErrLocation=false", got[i].Loc))
		}
		if _, err := os.Stat(abs); err != nil {
			fail("location", fmt.Sprintf("printed location %q expands to %q which does not exist", got[i].Loc, abs))
		}
		got[i].File = abs
	}
	gk, wk := e2e.SortedKeys(got), e2e.SortedKeys(want)
	extra, missing := diffKeys(gk, wk)
	if len(missing) > 0 || len(extra) > 0 {
		clause := "missing-line"
		if len(missing) == 0 {
			clause = "extra-line"
			// duplicates?
			seen := map[string]bool{}
			for _, k := range gk {
				if seen[k] {
					clause = "duplicate-line"
				}
				seen[k] = true
			}
		}
		// which filter is involved?
		for _, k := range append(append([]string{}, missing...), extra...) {
			f := strings.SplitN(k, ":", 2)[0]
			rel, _ := filepath.Rel(root, f)
			switch {
			case strings.HasSuffix(f, "_test.go"):
				clause += "|test-file"
			case meta.IsGenerated[rel]:
				clause += "|generated-file"
			default:
				if hasHeader(ws, rel) {
					clause += "|odd-header-file"
				}
			}
			break
		}
		fail(clause, fmt.Sprintf("printed diagnostics differ from the in-process expectation for exactly the files that should be analysed\nmissing (expected, not printed): %v\nextra (printed, not expected): %v",
			trimLines(missing, 5), trimLines(extra, 5)))
	}
	nontrivial := len(got) > 0 && (cc.Layout != "mod-root" || cc.Meta.OddHeader)
	if cc.Layout == "gopath-repeat" {
		for _, l := range got {
			if strings.HasPrefix(l.Loc, "$GOPATH/") {
				rec.Count("gopath-repeat:$GOPATH-form-printed")
				break
			}
		}
	}
	if nontrivial {
		rec.Nontrivial(fmt.Sprint(ws.Files), cc.Layout, fmt.Sprint(cc.Cfg), fmt.Sprint(cc.ExitCode, cc.Shorter))
		rec.Sample("nontrivial", 3, map[string]any{"layout": cc.Layout, "cmd": res.Cmd, "cwd": cwd, "lines": len(got), "first_line": firstLoc(got), "exit": res.Exit})
	}
	rec.Count("layout:" + cc.Layout)
	if cc.OddDir != "" {
		rec.Count("odd-directory-name")
	}
	rec.CountN("diagnostic-lines", len(got))
}

func firstLoc(ls []e2e.Line) string {
	if len(ls) == 0 {
		return ""
	}
	return ls[0].Loc
}

func hasHeader(ws *e2e.Workspace, rel string) bool {
	for _, f := range ws.Files {
		if f.Path == rel {
			return !strings.HasPrefix(f.Text, "package ")
		}
	}
	return false
}

func goRoot() string {
	if v := os.Getenv("GOROOT"); v != "" {
		return v
	}
	return "/usr/lib/go-1.23"
}

func indentOut(s string, maxLines int) string {
	ls := strings.Split(s, "\n")
	if len(ls) > maxLines {
		ls = append(ls[:maxLines], "…")
	}
	return "  | " + strings.Join(ls, "\n  | ")
}

func head200(s string) string {
	if len(s) > 600 {
		return s[:600]
	}
	return s
}
