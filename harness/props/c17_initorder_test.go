package props

import (
	"encoding/json"
	"fmt"
	"os"
	"os/exec"
	"path/filepath"
	"reflect"
	"strings"
	"sync"
	"testing"
	"time"

	"verif/harness/core"
)

// Registration histories (C17, "every rule group becomes exactly one registered checker ... the doc
// sub-command and the overview list exactly the registered checkers"): the registry is filled in two
// steps — the hand-written checkers from init functions, the rule groups by InitEmbeddedRules() at
// run time — and listed by linter.GetCheckersInfo(). An integrator may list or construct checkers
// before it loads the embedded rules. Each history below runs in a fresh process (harness/cmd/initorder,
// built by the driver next to the front-end binaries) and is judged against the model: a listing before "I" is exactly the hand-written
// checkers, every listing after "I" is exactly the full registry, entry by entry.
//
//	L = linter.GetCheckersInfo()      I = checkers.InitEmbeddedRules()
//	N = list and construct the first and last listed hand-written checker

type listedChecker struct {
	Name     string   `json:"name"`
	Tags     []string `json:"tags"`
	Summary  string   `json:"summary"`
	Before   string   `json:"before"`
	After    string   `json:"after"`
	Embedded bool     `json:"embedded"`
}

const initOrderMarker = "C17-INIT-ORDER "

func initOrderHistories() []string {
	pre := []string{"", "L", "N", "LL", "LN", "NL", "NN"}
	var out []string
	for _, p := range pre {
		out = append(out, p+"IL", p+"IN", p+"ILL")
	}
	return out
}

func checkInitOrder(t *testing.T, rec *core.Recorder, fail func(clause, name, msg string)) {
	reg := core.Registry()
	var full, hand []listedChecker
	for _, in := range reg {
		lc := listedChecker{in.Name, append([]string{}, in.Tags...), in.Summary, in.Before, in.After, in.EmbeddedRuleguard}
		full = append(full, lc)
		if !in.EmbeddedRuleguard {
			hand = append(hand, lc)
		}
	}
	type result struct {
		hist string
		out  []byte
		err  error
	}
	child := filepath.Join(os.Getenv("VERIF_BIN"), "initorder")
	if _, err := os.Stat(child); err != nil {
		rec.Inconclusive("C17: registration histories need the initorder helper in VERIF_BIN")
		return
	}
	hists := initOrderHistories()
	results := make([]result, len(hists))
	sem := make(chan struct{}, 6)
	var wg sync.WaitGroup
	for i, h := range hists {
		wg.Add(1)
		go func(i int, h string) {
			defer wg.Done()
			sem <- struct{}{}
			defer func() { <-sem }()
			cmd := exec.Command(child, h)
			done := make(chan struct{})
			var out []byte
			var err error
			go func() { out, err = cmd.CombinedOutput(); close(done) }()
			select {
			case <-done:
			case <-time.After(9 * time.Minute):
				if cmd.Process != nil {
					cmd.Process.Kill()
				}
				<-done
				err = fmt.Errorf("timed out")
			}
			results[i] = result{h, out, err}
		}(i, h)
	}
	wg.Wait()
	for _, r := range results {
		rec.Eval()
		if r.err != nil {
			rec.Inconclusive(fmt.Sprintf("C17: registration history %s: child: %v", r.hist, r.err))
			continue
		}
		var steps []struct {
			Op      string          `json:"op"`
			Error   string          `json:"error"`
			Listing []listedChecker `json:"listing"`
		}
		for _, l := range strings.Split(string(r.out), "\n") {
			if !strings.HasPrefix(l, initOrderMarker) {
				continue
			}
			var st struct {
				Op      string          `json:"op"`
				Error   string          `json:"error"`
				Listing []listedChecker `json:"listing"`
			}
			if json.Unmarshal([]byte(strings.TrimPrefix(l, initOrderMarker)), &st) == nil {
				steps = append(steps, st)
			}
		}
		if len(steps) != len(r.hist) {
			rec.Inconclusive(fmt.Sprintf("C17: registration history %s: child reported %d of %d steps", r.hist, len(steps), len(r.hist)))
			continue
		}
		rec.Nontrivial("registration-history", r.hist)
		loaded := false
		for i, st := range steps {
			if st.Error != "" {
				fail("registration-history", r.hist, fmt.Sprintf("history %s step %d (%s): %s", r.hist, i, st.Op, st.Error))
				break
			}
			if st.Op == "I" {
				loaded = true
				continue
			}
			want := hand
			if loaded {
				want = full
			} else {
				// before the rule groups are loaded only the hand-written part is judged
				var hw []listedChecker
				for _, c := range st.Listing {
					if !c.Embedded {
						hw = append(hw, c)
					}
				}
				st.Listing = hw
			}
			if !reflect.DeepEqual(st.Listing, want) {
				fail("registration-history", r.hist, fmt.Sprintf("history %s step %d (%s): the registry lists %d checkers (%d from rule groups), the model has %d (%d); first difference: %s",
					r.hist, i, st.Op, len(st.Listing), countEmbedded(st.Listing), len(want), countEmbedded(want), firstListingDiff(want, st.Listing)))
				break
			}
		}
	}
	rec.Sample("registration histories (fresh process each)", 1, map[string]any{"histories": hists, "hand_written": len(hand), "all": len(full)})
}

func countEmbedded(l []listedChecker) int {
	n := 0
	for _, c := range l {
		if c.Embedded {
			n++
		}
	}
	return n
}

func firstListingDiff(want, got []listedChecker) string {
	for i := 0; i < len(want) || i < len(got); i++ {
		switch {
		case i >= len(got):
			return "missing " + want[i].Name
		case i >= len(want):
			return "extra " + got[i].Name
		case !reflect.DeepEqual(want[i], got[i]):
			return fmt.Sprintf("entry %d: want %+v, got %+v", i, want[i], got[i])
		}
	}
	return "none"
}
