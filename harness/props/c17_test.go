package props

import (
	"bytes"
	"encoding/json"
	"fmt"
	"go/ast"
	"go/parser"
	"go/token"
	"go/types"
	"os"
	"os/exec"
	"path/filepath"
	"reflect"
	"regexp"
	"sort"
	"strings"
	"testing"

	"github.com/quasilyte/go-ruleguard/ruleguard"
	"github.com/quasilyte/go-ruleguard/ruleguard/ir"
	"github.com/quasilyte/go-ruleguard/ruleguard/irconv"
	"pgregory.net/rapid"

	"github.com/go-critic/go-critic/checkers/rulesdata"
	"github.com/go-critic/go-critic/linter"

	"verif/harness/core"
)

func rulesSourcePath() string {
	return filepath.Join(core.RepoDir(), "checkers", "rules", "rules.go")
}

// compileRules runs the pipeline of checkers/rules/precompile.go in memory.
func compileRules(src []byte) (*ir.File, error) {
	fset := token.NewFileSet()
	f, err := parser.ParseFile(fset, rulesSourcePath(), src, parser.ParseComments)
	if err != nil {
		return nil, fmt.Errorf("parse: %v", err)
	}
	info := &types.Info{
		Types: map[ast.Expr]types.TypeAndValue{},
		Uses:  map[*ast.Ident]types.Object{},
		Defs:  map[*ast.Ident]types.Object{},
	}
	conf := types.Config{Importer: core.Importer}
	pkg, err := conf.Check("gorules", fset, []*ast.File{f}, info)
	if err != nil {
		return nil, fmt.Errorf("typecheck: %v", err)
	}
	return irconv.ConvertFile(&irconv.Context{Pkg: pkg, Types: info, Fset: fset, Src: src}, f)
}

// diffIR compares two IR files group by group and rule by rule; returns human-readable
// differences (empty = structurally equal).
func diffIR(a, b *ir.File) []string {
	var out []string
	if a.PkgPath != b.PkgPath {
		out = append(out, fmt.Sprintf("PkgPath %q vs %q", a.PkgPath, b.PkgPath))
	}
	if !reflect.DeepEqual(a.CustomDecls, b.CustomDecls) && (len(a.CustomDecls) != 0 || len(b.CustomDecls) != 0) {
		out = append(out, "CustomDecls differ")
	}
	if !reflect.DeepEqual(a.BundleImports, b.BundleImports) && (len(a.BundleImports) != 0 || len(b.BundleImports) != 0) {
		out = append(out, "BundleImports differ")
	}
	am := map[string]ir.RuleGroup{}
	for _, g := range a.RuleGroups {
		am[g.Name] = g
	}
	bm := map[string]ir.RuleGroup{}
	for _, g := range b.RuleGroups {
		bm[g.Name] = g
	}
	if len(a.RuleGroups) != len(b.RuleGroups) {
		out = append(out, fmt.Sprintf("%d vs %d rule groups", len(a.RuleGroups), len(b.RuleGroups)))
	}
	for i := range a.RuleGroups {
		if i < len(b.RuleGroups) && a.RuleGroups[i].Name != b.RuleGroups[i].Name {
			out = append(out, fmt.Sprintf("group #%d is %s vs %s (order)", i, a.RuleGroups[i].Name, b.RuleGroups[i].Name))
			break
		}
	}
	for name, ga := range am {
		gb, ok := bm[name]
		if !ok {
			out = append(out, "group "+name+": only in compiled source")
			continue
		}
		if len(ga.Rules) != len(gb.Rules) {
			out = append(out, fmt.Sprintf("group %s: %d vs %d rules", name, len(ga.Rules), len(gb.Rules)))
		}
		for i := range ga.Rules {
			if i < len(gb.Rules) && !reflect.DeepEqual(normRule(ga.Rules[i]), normRule(gb.Rules[i])) {
				out = append(out, fmt.Sprintf("group %s rule #%d (line %d): differs\n  source: %+v\n  shipped: %+v", name, i, ga.Rules[i].Line, ga.Rules[i], gb.Rules[i]))
			}
		}
		ga.Rules, gb.Rules = nil, nil
		if !reflect.DeepEqual(normGroup(ga), normGroup(gb)) {
			out = append(out, fmt.Sprintf("group %s: metadata differs\n  source: %+v\n  shipped: %+v", name, ga, gb))
		}
	}
	for name := range bm {
		if _, ok := am[name]; !ok {
			out = append(out, "group "+name+": only in shipped data")
		}
	}
	sort.Strings(out)
	return out
}

// normalisation: nil and empty slices are the same structure.
func normRule(r ir.Rule) string {
	b, _ := json.Marshal(r)
	return string(bytes.ReplaceAll(b, []byte("null"), []byte("[]")))
}
func normGroup(g ir.RuleGroup) string {
	b, _ := json.Marshal(g)
	return string(bytes.ReplaceAll(b, []byte("null"), []byte("[]")))
}

var reDocRow = regexp.MustCompile(`^\|:(heavy_check_mark|white_check_mark):\[(\w+)\]\(#(\w+)\)\|(.*)\|$`)

func defaultEnabled(in *linter.CheckerInfo) bool {
	for _, t := range []string{"experimental", "opinionated", "performance", "security"} {
		if in.HasTag(t) {
			return false
		}
	}
	return true
}

func init() {
	register("C17", prop{
		Run: func(t *testing.T, rec *core.Recorder) {
			runC17(t, rec)
		},
		Replay: func(t *testing.T, rec *core.Recorder, raw json.RawMessage) {
			runC17(t, rec)
		},
	})
}

func runC17(t *testing.T, rec *core.Recorder) {
	reg := core.Registry()
	src, err := os.ReadFile(rulesSourcePath())
	if err != nil {
		rec.Inconclusive("C17: " + err.Error())
		return
	}
	fail := func(clause, name, msg string) {
		rec.Violation(t, "C17|"+clause+"|"+name, msg, map[string]string{"clause": clause, "name": name})
	}

	// (1) shipped IR == compiled source
	compiled, err := compileRules(src)
	if err != nil {
		fail("rules-source-does-not-compile", "rules.go", err.Error())
		return
	}
	diffs := diffIR(compiled, rulesdata.PrecompiledRules)
	nRules := 0
	for _, g := range compiled.RuleGroups {
		rec.Eval()
		rec.Nontrivial("group", g.Name)
		for range g.Rules {
			rec.Eval()
			nRules++
			rec.Nontrivial("rule", g.Name, fmt.Sprint(nRules))
		}
	}
	for _, d := range diffs {
		name := "?"
		if f := strings.Fields(d); len(f) > 1 {
			name = strings.TrimSuffix(f[1], ":")
		}
		fail("data-differs-from-compiled-source", name, d)
	}
	rec.Sample("rule groups compared", 1, map[string]any{"groups": len(compiled.RuleGroups), "rules": nRules,
		"first": compiled.RuleGroups[0].Name, "last": compiled.RuleGroups[len(compiled.RuleGroups)-1].Name})

	// (2) bijection group <-> registered embedded checker
	byName := map[string]*linter.CheckerInfo{}
	for _, in := range reg {
		byName[in.Name] = in
	}
	emb := map[string]bool{}
	for _, in := range reg {
		if in.EmbeddedRuleguard {
			emb[in.Name] = true
		}
	}
	for _, g := range compiled.RuleGroups {
		rec.Eval()
		in := byName[g.Name]
		if in == nil || !in.EmbeddedRuleguard {
			fail("group-without-checker", g.Name, "rule group "+g.Name+" has no registered embedded checker")
			continue
		}
		delete(emb, g.Name)
		if in.Summary != g.DocSummary || in.Before != g.DocBefore || in.After != g.DocAfter || in.Note != g.DocNote || !reflect.DeepEqual(append([]string{}, in.Tags...), append([]string{}, g.DocTags...)) {
			fail("checker-metadata-differs", g.Name, fmt.Sprintf("checker %+v vs group {%q %q %q %q %v}", *in, g.DocSummary, g.DocBefore, g.DocAfter, g.DocNote, g.DocTags))
		}
		rec.Nontrivial("bijection", g.Name)
	}
	for n := range emb {
		fail("checker-without-group", n, "embedded checker "+n+" has no rule group in the source")
	}
	names := map[string]int{}
	for _, in := range reg {
		names[in.Name]++
		if names[in.Name] > 1 {
			fail("duplicate-checker", in.Name, "registered twice")
		}
	}

	// (3) generated overview page rows == registry + default rule
	doc, err := os.ReadFile(filepath.Join(core.RepoDir(), "docs", "overview.md"))
	if err != nil {
		rec.Inconclusive("C17: " + err.Error())
		return
	}
	section := ""
	seenRow := map[string]bool{}
	sections := map[string]string{} // checker -> section tag
	for _, line := range strings.Split(string(doc), "\n") {
		if strings.HasPrefix(line, "### Checkers from the \"") {
			section = strings.TrimSuffix(strings.TrimPrefix(line, "### Checkers from the \""), "\" group")
			continue
		}
		m := reDocRow.FindStringSubmatch(line)
		if m == nil {
			continue
		}
		rec.Eval()
		mark, name, anchor, summary := m[1], m[2], m[3], m[4]
		rec.Nontrivial("docrow", name)
		in := byName[name]
		if in == nil {
			fail("doc-row-without-checker", name, "docs/overview.md lists "+name+" which is not registered")
			continue
		}
		if seenRow[name] {
			fail("doc-row-duplicate", name, "listed twice")
		}
		seenRow[name] = true
		sections[name] = section
		wantMark := "white_check_mark"
		if defaultEnabled(in) {
			wantMark = "heavy_check_mark"
		}
		if mark != wantMark {
			fail("doc-default-mark", name, fmt.Sprintf("docs/overview.md marks %s as %s but the selection rule says %s (tags %v)", name, mark, wantMark, in.Tags))
		}
		if anchor != strings.ToLower(name) {
			fail("doc-anchor", name, "anchor "+anchor)
		}
		if summary != in.Summary {
			fail("doc-summary", name, fmt.Sprintf("%q vs registered %q", summary, in.Summary))
		}
		if !in.HasTag(section) {
			fail("doc-section", name, fmt.Sprintf("listed under %q but tags are %v", section, in.Tags))
		}
	}
	for _, in := range reg {
		if !seenRow[in.Name] {
			fail("checker-without-doc-row", in.Name, "registered checker "+in.Name+" is missing from docs/overview.md")
		}
		if !strings.Contains(string(doc), "\n## "+in.Name+"\n") && !strings.Contains(string(doc), "\n### "+in.Name+"\n") {
			fail("checker-without-doc-section", in.Name, "no detailed section for "+in.Name)
		}
	}
	if !strings.Contains(string(doc), fmt.Sprintf("Total number of checks is %d ", len(reg))) {
		fail("doc-total", "overview", fmt.Sprintf("overview page does not state %d checks", len(reg)))
	}

	// (3b) `go-critic doc` lists exactly the registry
	if bin := os.Getenv("VERIF_BIN"); bin != "" {
		for _, b := range []string{"go-critic", "gocritic"} {
			out, err := exec.Command(filepath.Join(bin, b), "doc").Output()
			if err != nil {
				rec.Inconclusive("C17: " + b + " doc: " + err.Error())
				continue
			}
			var want []string
			for _, in := range reg {
				want = append(want, fmt.Sprintf("%s %v", in.Name, in.Tags))
			}
			got := strings.Split(strings.TrimSpace(string(out)), "\n")
			rec.Eval()
			rec.Nontrivial("doc-subcommand", b)
			if !reflect.DeepEqual(got, want) {
				fail("doc-subcommand", b, fmt.Sprintf("%s doc lists %d lines, registry has %d; first difference: %s", b, len(got), len(want), firstDiffLine(strings.Join(want, "\n"), strings.Join(got, "\n"))))
			}
		}
	}

	// (3c) registration histories in fresh processes: listing / constructing before and after the rule groups are loaded
	checkInitOrder(t, rec, fail)

	// (4) behavioural differential: engine loaded from source vs engine loaded from shipped IR
	behaviouralDiff(t, rec, src, fail)

	// generated self-test of the comparator: a random single-character edit inside a string
	// literal of the rule source (in memory) must be reported as a difference
	detected, tried := 0, 0
	rapid.Check(t, func(rt *rapid.T) {
		lits := stringLiteralOffsets(src)
		if len(lits) == 0 {
			return
		}
		l := lits[rapid.IntRange(0, len(lits)-1).Draw(rt, "lit")]
		if l[1]-l[0] < 3 {
			return
		}
		at := rapid.IntRange(l[0]+1, l[1]-2).Draw(rt, "at")
		mut := append([]byte{}, src...)
		if mut[at] == '\\' || mut[at-1] == '\\' || mut[at] == '$' || mut[at] == '"' || mut[at] == '`' {
			return
		}
		if mut[at] == 'q' {
			mut[at] = 'j'
		} else {
			mut[at] = 'q'
		}
		c2, err := compileRules(mut)
		if err != nil {
			return // the edit broke the DSL; not a comparator case
		}
		tried++
		if len(diffIR(c2, rulesdata.PrecompiledRules)) > 0 {
			detected++
		} else {
			rt.Fatalf("comparator self-test: edit at offset %d (%q) not detected", at, string(src[l[0]:l[1]]))
		}
	})
	rec.CountN("selftest-edits-tried", tried)
	rec.CountN("selftest-edits-detected", detected)
	rec.SetExhaustive()
}

// stringLiteralOffsets returns [start,end) of every string literal inside Match/Report/Suggest.
func stringLiteralOffsets(src []byte) [][2]int {
	fset := token.NewFileSet()
	f, err := parser.ParseFile(fset, "rules.go", src, 0)
	if err != nil {
		return nil
	}
	var out [][2]int
	ast.Inspect(f, func(n ast.Node) bool {
		call, ok := n.(*ast.CallExpr)
		if !ok {
			return true
		}
		sel, ok := call.Fun.(*ast.SelectorExpr)
		if !ok {
			return true
		}
		switch sel.Sel.Name {
		case "Match", "Report", "Suggest":
			for _, a := range call.Args {
				if bl, ok := a.(*ast.BasicLit); ok && bl.Kind == token.STRING {
					out = append(out, [2]int{fset.Position(bl.Pos()).Offset, fset.Position(bl.End()).Offset})
				}
			}
		}
		return true
	})
	return out
}

// behaviouralDiff loads one engine from the rule source and one from the shipped IR and compares
// what they report over the whole example corpus.
func behaviouralDiff(t *testing.T, rec *core.Recorder, src []byte, fail func(clause, name, msg string)) {
	env, _ := sharedEnv(t)
	mk := func(fromSource bool) (*ruleguard.Engine, error) {
		e := ruleguard.NewEngine()
		e.InferBuildContext()
		lc := &ruleguard.LoadContext{Fset: token.NewFileSet()}
		if fromSource {
			return e, e.Load(lc, rulesSourcePath(), bytes.NewReader(src))
		}
		return e, e.LoadFromIR(lc, "rules/rules.go", rulesdata.PrecompiledRules)
	}
	es, err := mk(true)
	if err != nil {
		fail("rules-source-does-not-load", "rules.go", err.Error())
		return
	}
	ei, err := mk(false)
	if err != nil {
		fail("shipped-ir-does-not-load", "rulesdata", err.Error())
		return
	}
	run := func(e *ruleguard.Engine, p *core.Program, fi int) []string {
		var out []string
		ctx := &ruleguard.RunContext{
			Pkg: p.Pkg, Types: p.Info, Sizes: core.Sizes, Fset: p.Fset, TruncateLen: 100,
			Report: func(data *ruleguard.ReportData) {
				pos := p.Fset.Position(data.Node.Pos())
				s := fmt.Sprintf("%d:%d %s: %s", pos.Line, pos.Column, data.RuleInfo.Group.Name, data.Message)
				if data.Suggestion != nil {
					s += " => " + string(data.Suggestion.Replacement)
				}
				out = append(out, s)
			},
		}
		func() {
			defer func() { recover() }()
			_ = e.Run(ctx, p.Files[fi])
		}()
		sort.Strings(out)
		return out
	}
	files, reports := 0, 0
	for _, ce := range env.CorpusPrograms() {
		p := ce.Program()
		for fi := range p.Files {
			a, b := run(es, p, fi), run(ei, p, fi)
			files++
			reports += len(a)
			rec.Eval()
			if len(a) > 0 {
				rec.Nontrivial("behaviour", p.Names[fi])
			}
			if !reflect.DeepEqual(a, b) {
				d := firstDiffLine(strings.Join(a, "\n"), strings.Join(b, "\n"))
				fail("behaviour-differs", ce.Name(), fmt.Sprintf("%s: engine from source vs engine from shipped IR:\n%s", p.Names[fi], d))
			}
		}
	}
	rec.Sample("behavioural differential", 1, map[string]any{"corpus_files": files, "reports_compared": reports})
}
