package props

import (
	"encoding/json"
	"fmt"
	"os"
	"path/filepath"
	"sort"
	"strings"
	"testing"

	"pgregory.net/rapid"

	"github.com/go-critic/go-critic/linter"

	"verif/harness/core"
	"verif/harness/gen"
)

// ruleFile is one generated rule file.
type ruleFile struct {
	Name   string      `json:"name"`
	Kind   string      `json:"kind"` // valid | unreadable-symlink | unreadable-dir | syntax | dsl | import | empty
	Groups []ruleGroup `json:"groups,omitempty"`
}

type ruleGroup struct {
	Name string   `json:"name"`
	Tags []string `json:"tags"`
}

type rulesCase struct {
	Files       []ruleFile `json:"files"`
	UseGlob     bool       `json:"use_glob"`
	ExtraNoFile bool       `json:"pattern_without_match"`
	FailOn      string     `json:"fail_on"`
	FailOnError bool       `json:"fail_on_error_legacy"`
	Enable      string     `json:"enable"`
	Disable     string     `json:"disable"`
}

const c18Target = `package p

func marker(...interface{}) {}

func f() {
%s}
`

func init() {
	register("C18", prop{
		Run: func(t *testing.T, rec *core.Recorder) {
			env, _ := sharedEnv(t)
			check(t, func(rt *rapid.T) {
				defer env.Release()
				rc := drawRulesCase(rt)
				checkC18(rt, rec, env, rc)
			})
		},
		Replay: func(t *testing.T, rec *core.Recorder, raw json.RawMessage) {
			env, _ := sharedEnv(t)
			var rc rulesCase
			if err := json.Unmarshal(raw, &rc); err != nil {
				t.Fatal(err)
			}
			checkC18(t, rec, env, &rc)
		},
	})
}

var c18Tags = []string{"t1", "t2", "experimental", "style"}

func drawRulesCase(rt *rapid.T) *rulesCase {
	rc := &rulesCase{}
	n := rapid.IntRange(1, 5).Draw(rt, "nfiles")
	gi := 0
	for i := 0; i < n; i++ {
		kind := pickT(rt, "kind", []string{"valid", "valid", "valid", "unreadable-symlink", "unreadable-dir", "syntax", "dsl", "import", "empty"})
		rf := ruleFile{Name: fmt.Sprintf("r-%d.go", i), Kind: kind}
		if kind == "valid" {
			ng := rapid.IntRange(1, 3).Draw(rt, "ngroups")
			for j := 0; j < ng; j++ {
				g := ruleGroup{Name: fmt.Sprintf("grp%d", gi)}
				gi++
				nt := rapid.IntRange(0, 2).Draw(rt, "ntags")
				for k := 0; k < nt; k++ {
					tg := pickT(rt, "tag", c18Tags)
					dup := false
					for _, x := range g.Tags {
						if x == tg {
							dup = true
						}
					}
					if !dup {
						g.Tags = append(g.Tags, tg)
					}
				}
				rf.Groups = append(rf.Groups, g)
			}
		}
		rc.Files = append(rc.Files, rf)
	}
	rc.UseGlob = rapid.Bool().Draw(rt, "glob")
	rc.ExtraNoFile = rapid.IntRange(0, 9).Draw(rt, "nomatch") == 0
	rc.FailOn = pickT(rt, "failOn", []string{"", "", "", "dsl", "import", "all", "dsl,import", "import,dsl", "all,dsl", ",dsl", "bogus", "dsl,bogus", "DSL", "none"})
	rc.FailOnError = rapid.IntRange(0, 4).Draw(rt, "legacy") == 0
	// enable / disable lists over group names and tags
	var names []string
	for _, f := range rc.Files {
		for _, g := range f.Groups {
			names = append(names, g.Name)
		}
	}
	list := func(label string) string {
		k := rapid.IntRange(0, 3).Draw(rt, label+"-n")
		var parts []string
		for i := 0; i < k; i++ {
			switch rapid.IntRange(0, 3).Draw(rt, label+"-kind") {
			case 0:
				parts = append(parts, "#"+pickT(rt, label+"-tag", c18Tags))
			case 1:
				if len(names) > 0 {
					parts = append(parts, pickT(rt, label+"-name", names))
				}
			case 2:
				parts = append(parts, "nosuchgroup")
			case 3:
				if len(names) > 0 {
					parts = append(parts, pickT(rt, label+"-name2", names))
				}
			}
		}
		return strings.Join(parts, ",")
	}
	if rapid.Bool().Draw(rt, "enableAll") {
		rc.Enable = "<all>"
	} else {
		rc.Enable = list("enable")
	}
	rc.Disable = list("disable")
	return rc
}

func pickT(rt *rapid.T, label string, xs []string) string {
	return xs[rapid.IntRange(0, len(xs)-1).Draw(rt, label)]
}

func renderRuleFile(rf ruleFile) string {
	switch rf.Kind {
	case "syntax":
		return "package gorules\n\nfunc (\n"
	case "dsl":
		return "package gorules\n\nimport \"github.com/quasilyte/go-ruleguard/dsl\"\n\nfunc broken(m dsl.Matcher) {\n\tm.Match(`f(`).Report(`x`)\n}\n"
	case "import":
		return "package gorules\n\nimport \"github.com/quasilyte/go-ruleguard/dsl\"\n\nfunc imp(m dsl.Matcher) {\n\tm.Import(`verif.invalid/no/such/pkg`)\n\tm.Match(`marker($x)`).Where(m[\"x\"].Type.Implements(`pkg.Iface`)).Report(`imp`)\n}\n"
	case "empty":
		return ""
	}
	var sb strings.Builder
	sb.WriteString("package gorules\n\nimport \"github.com/quasilyte/go-ruleguard/dsl\"\n\n")
	for _, g := range rf.Groups {
		if len(g.Tags) > 0 {
			fmt.Fprintf(&sb, "//doc:summary marker group\n//doc:tags %s\n", strings.Join(g.Tags, " "))
		}
		fmt.Fprintf(&sb, "func %s(m dsl.Matcher) {\n\tm.Match(`marker(%q)`).Report(`M:%s`)\n}\n\n", g.Name, g.Name, g.Name)
	}
	return sb.String()
}

func splitList(s string) (names, tags map[string]bool) {
	names, tags = map[string]bool{}, map[string]bool{}
	for _, g := range strings.Split(s, ",") {
		g = strings.TrimSpace(g)
		if strings.HasPrefix(g, "#") {
			tags[strings.TrimPrefix(g, "#")] = true
		} else {
			names[g] = true
		}
	}
	return
}

// c18Model is the reference model written from the property statement.
// It returns whether init must fail (mustFail), may fail (mayFail: the statement leaves the cell
// open), and for every group whether it must run / must not run / either.
func c18Model(rc *rulesCase) (mustFail, mayFail bool, want map[string]string) {
	failOn := rc.FailOn
	if failOn == "" && rc.FailOnError {
		failOn = "all"
	}
	classes := map[string]bool{}
	for _, k := range strings.Split(failOn, ",") {
		if k == "" {
			continue
		}
		switch k {
		case "dsl", "import", "all":
			classes[k] = true
		default:
			return true, true, nil // unknown failOn value: always an error
		}
	}
	if rc.ExtraNoFile {
		mustFail = true
	}
	// A DSL or import fault sits inside one rule group (named broken / imp, no tags); groups that the
	// enable list filters out are never compiled, so the fault only occurs when that group is
	// enabled, i.e. with the <all> default (the generated lists never name these groups).
	groupFaultOccurs := rc.Enable == "<all>"
	groupFaultMayOccur := rc.Enable == ""
	for _, f := range rc.Files {
		switch f.Kind {
		case "unreadable-symlink", "unreadable-dir":
			if classes["all"] {
				mustFail = true
			} else if classes["dsl"] || classes["import"] {
				mayFail = true
			}
		case "syntax", "empty":
			if classes["all"] || classes["dsl"] {
				mustFail = true
			}
		case "dsl":
			if classes["all"] || classes["dsl"] {
				if groupFaultOccurs {
					mustFail = true
				} else if groupFaultMayOccur {
					mayFail = true
				}
			}
		case "import":
			if classes["all"] || classes["import"] {
				if groupFaultOccurs {
					mustFail = true
				} else if groupFaultMayOccur {
					mayFail = true
				}
			}
		}
	}
	if mustFail {
		return true, true, nil
	}
	want = map[string]string{}
	en, et := splitList(rc.Enable)
	dn, dt := splitList(rc.Disable)
	all := rc.Enable == "<all>"
	for _, f := range rc.Files {
		for _, g := range f.Groups {
			enabled := all || en[g.Name]
			byTag := false
			for _, tg := range g.Tags {
				if et[tg] {
					byTag = true
				}
			}
			enabled = enabled || byTag
			disabled := dn[g.Name]
			experimental := false
			for _, tg := range g.Tags {
				if dt[tg] {
					disabled = true
				}
				if tg == "experimental" {
					experimental = true
				}
			}
			switch {
			case rc.Enable == "" && !disabled:
				// the usage text ("or skip empty to enable everything") and the code disagree on an
				// empty list and the statement does not fix it
				want[g.Name] = "either"
			case !enabled || disabled:
				want[g.Name] = "no"
			case experimental && !et["experimental"]:
				// enabled by name or by another tag or by <all> without asking for experimental:
				// "experimental groups only when asked for" - by name counts as asking in one reading,
				// so only the clear cases are fixed.
				if en[g.Name] {
					want[g.Name] = "either"
				} else {
					want[g.Name] = "no"
				}
			default:
				want[g.Name] = "yes"
			}
		}
	}
	return false, mayFail, want
}

func checkC18(t core.TB, rec *core.Recorder, env *gen.Env, rc *rulesCase) {
	rec.Eval()
	dir := filepath.Join(env.Work, fmt.Sprintf("rules%d", len(rc.Files)*1000+os.Getpid()%1000))
	os.RemoveAll(dir)
	os.MkdirAll(dir, 0o755)
	defer os.RemoveAll(dir)
	var paths []string
	for _, rf := range rc.Files {
		p := filepath.Join(dir, rf.Name)
		switch rf.Kind {
		case "unreadable-symlink":
			os.Symlink(filepath.Join(dir, "does-not-exist"), p)
		case "unreadable-dir":
			os.MkdirAll(p, 0o755)
		default:
			os.WriteFile(p, []byte(renderRuleFile(rf)), 0o644)
		}
		paths = append(paths, p)
	}
	rules := strings.Join(paths, ",")
	if rc.UseGlob {
		rules = filepath.Join(dir, "r-*.go")
	}
	if rc.ExtraNoFile {
		rules += "," + filepath.Join(dir, "zz-nomatch-*.go")
	}
	// target program: one call per group
	var calls strings.Builder
	for _, rf := range rc.Files {
		for _, g := range rf.Groups {
			fmt.Fprintf(&calls, "\tmarker(%q)\n", g.Name)
		}
	}
	calls.WriteString("\tmarker(\"none\")\n")
	prog := env.Load([]core.Source{{Name: "target.go", Text: fmt.Sprintf(c18Target, calls.String())}})
	if !prog.OK() {
		rec.Inconclusive("C18 target does not type-check: " + prog.ErrSummary())
		return
	}

	mustFail, mayFail, want := c18Model(rc)

	info := core.InfoByName("ruleguard")
	params := map[string]string{
		"ruleguard.rules": rules, "ruleguard.failOn": rc.FailOn, "ruleguard.failOnError": fmt.Sprint(rc.FailOnError),
		"ruleguard.enable": rc.Enable, "ruleguard.disable": rc.Disable, "ruleguard.debug": "",
	}
	var initErr error
	var diags []core.Diag
	var crash *core.Crash
	gen.WithParams(params, func() {
		set, err := core.NewSet(env.Fset, []*linter.CheckerInfo{info})
		if err != nil {
			initErr = err
			return
		}
		ds, crashes := set.RunAll(prog, 0)
		diags = ds["ruleguard"]
		if len(crashes) > 0 {
			crash = crashes[0]
		}
	})

	faulty, valid := 0, 0
	var kinds []string
	for _, f := range rc.Files {
		if f.Kind == "valid" {
			valid++
		} else {
			faulty++
		}
		kinds = append(kinds, f.Kind)
	}
	seqClass := strings.Join(dedupSorted(kinds), "+")
	sigBase := "C18|" + seqClass + "|failOn=" + rc.FailOn
	if rc.FailOnError {
		sigBase += "+legacy"
	}

	if crash != nil {
		rec.Violation(t, sigBase+"|crash", "ruleguard checker panicked: "+crash.Value, rc)
		return
	}
	switch {
	case initErr != nil && !mustFail && !mayFail:
		rec.Violation(t, sigBase+"|unexpected-error", fmt.Sprintf("initialisation failed but the policy says the faulty files are skipped: %v", initErr), rc)
	case initErr == nil && mustFail:
		rec.Violation(t, sigBase+"|unexpected-success", fmt.Sprintf("initialisation succeeded (and analysed: %d diagnostics) but the policy says it must fail", len(diags)), rc)
	}
	if initErr == nil && !mustFail {
		got := map[string]int{}
		for _, d := range diags {
			if strings.HasPrefix(d.Text, "M:") {
				got[strings.TrimPrefix(d.Text, "M:")]++
			} else {
				clause := "foreign-diagnostic"
				if strings.Contains(d.Text, "execution error") {
					clause = "execution-error"
				}
				rec.Violation(t, sigBase+"|"+clause, "unexpected diagnostic: "+d.String(), rc)
			}
		}
		names := make([]string, 0, len(want))
		for n := range want {
			names = append(names, n)
		}
		sort.Strings(names)
		for _, n := range names {
			switch want[n] {
			case "yes":
				if got[n] != 1 {
					rec.Violation(t, sigBase+"|wrong-markers|missing", fmt.Sprintf("group %s is enabled by the algebra but reported %d times (enable=%q disable=%q)", n, got[n], rc.Enable, rc.Disable), rc)
				}
			case "no":
				if got[n] != 0 {
					rec.Violation(t, sigBase+"|wrong-markers|extra", fmt.Sprintf("group %s must not run but reported %d times (enable=%q disable=%q)", n, got[n], rc.Enable, rc.Disable), rc)
				}
			}
		}
	}
	both := rc.Enable != "<all>" && rc.Enable != "" && rc.Disable != ""
	if (faulty > 0 && valid > 0) || both {
		rec.Nontrivial(fmt.Sprint(rc.Files), rc.FailOn, fmt.Sprint(rc.FailOnError), rc.Enable, rc.Disable, fmt.Sprint(rc.UseGlob, rc.ExtraNoFile))
		rec.Sample("nontrivial", 4, rc)
	}
	rec.Count("files:" + seqClass)
	if initErr != nil {
		rec.Count("outcome:init-error")
	} else {
		rec.Count("outcome:ok")
	}
}

func dedupSorted(xs []string) []string {
	m := map[string]bool{}
	for _, x := range xs {
		m[x] = true
	}
	var out []string
	for x := range m {
		out = append(out, x)
	}
	sort.Strings(out)
	return out
}
