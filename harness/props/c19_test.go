package props

import (
	"encoding/json"
	"fmt"
	"go/scanner"
	"go/token"
	"os"
	"path/filepath"
	"regexp"
	"strings"
	"testing"
	"time"

	"pgregory.net/rapid"

	"verif/harness/core"
	"verif/harness/e2e"
	"verif/harness/gen"
)

type errCase struct {
	Kind     string         `json:"kind"` // invalid-config | broken-package
	FrontEnd string         `json:"front_end"`
	Class    string         `json:"class,omitempty"`
	Value    string         `json:"value,omitempty"`
	NPkgs    int            `json:"packages"`
	WS       *e2e.Workspace `json:"workspace"`
	Fault    string         `json:"fault,omitempty"`
}

func init() {
	register("C19", prop{
		Run: func(t *testing.T, rec *core.Recorder) {
			env, _ := sharedEnv(t)
			check(t, func(rt *rapid.T) {
				defer env.Release()
				ec := drawErrCase(rt)
				checkC19(rt, rec, env, ec)
			})
		},
		Replay: func(t *testing.T, rec *core.Recorder, raw json.RawMessage) {
			env, _ := sharedEnv(t)
			var ec errCase
			if err := json.Unmarshal(raw, &ec); err != nil {
				t.Fatal(err)
			}
			checkC19(t, rec, env, &ec)
		},
	})
}

var invalidConfigs = map[string][]string{
	"go-version":      {"abc", "1", "1.x", "x.21", "1.2.3", "1.", ".5", "go1", "1,18", "v1.18", "go1.x", "gogo1.18", "g1.18", "o1.18", "goo1.18", "og1.18", "g", "o", "gog", "gogo", "Go1.18", "go 1.18", "go1.18go", "1.18 ", "golang1.18", "1.18e0", "0x1.18", "1.1_8"},
	"failOn":          {"bogus", "dsl,bogus", "ALL", "import;dsl"},
	"rules-no-match":  {"/nonexistent/verif-*.go", "nomatch-*.go", "GOOD,nomatch-*.go", "GOOD,GOOD,/nonexistent/x.go"},
	"empty-selection": {"nosuchchecker", "#nosuchtag", ""},
	"param-value":     {"abc", "1.5", "", "0x", "true"},
}

var classKeywords = map[string][]string{
	"go-version":      {"version", "go"},
	"failOn":          {"failon", "invalid"},
	"rules-no-match":  {"no file matching", "rules"},
	"empty-selection": {"empty", "no checkers"},
	"param-value":     {"invalid", "parse", "sizethreshold"},
}

func simplePkg(name string, withDiag bool) string {
	body := "package " + name + "\n\nfunc F(xs []int) bool {\n"
	if withDiag {
		body += "\tx := 0\n\tx = x + 1\n\t_ = x\n\treturn len(xs) >= 0\n}\n"
	} else {
		body += "\treturn len(xs) == 0\n}\n"
	}
	return body
}

func drawErrCase(rt *rapid.T) *errCase {
	ec := &errCase{}
	ec.FrontEnd = pickT(rt, "frontend", []string{"go-critic", "gocritic", "go-critic-analysis", "gocritic-analysis"})
	ec.NPkgs = rapid.IntRange(1, 3).Draw(rt, "npkgs")
	names := []string{"alpha", "beta", "gamma"}
	if rapid.IntRange(0, 9).Draw(rt, "kind") < 5 {
		ec.Kind = "invalid-config"
		classes := []string{"go-version", "failOn", "rules-no-match", "empty-selection", "param-value"}
		ec.Class = pickT(rt, "class", classes)
		ec.Value = pickT(rt, "value", invalidConfigs[ec.Class])
		ws := &e2e.Workspace{}
		for i := 0; i < ec.NPkgs; i++ {
			ws.Files = append(ws.Files, e2e.File{Path: names[i] + "/f.go", Text: simplePkg(names[i], true)})
		}
		ec.WS = ws
		return ec
	}
	ec.Kind = "broken-package"
	if strings.HasSuffix(ec.FrontEnd, "-analysis") && rapid.IntRange(0, 2).Draw(rt, "preferCommand") > 0 {
		// the analysis drivers refuse packages with errors; the command and its twin analyse them
		ec.FrontEnd = pickT(rt, "command", []string{"go-critic", "gocritic"})
	}
	ws, _ := gen.DrawWorkspace(rt, gen.WSOpts{MaxPkgs: ec.NPkgs, Tests: true, Kernels: e2eKernels()})
	// inject 1..2 faults
	nf := rapid.IntRange(1, 2).Draw(rt, "nfaults")
	var faults []string
	for k := 0; k < nf; k++ {
		fi := rapid.IntRange(0, len(ws.Files)-1).Draw(rt, "faultfile")
		f := &ws.Files[fi]
		kind := pickT(rt, "fault", []string{"delete-token", "undefined-ident", "type-mismatch", "bad-import", "unresolved-import", "mixed-package", "empty-file", "truncate", "unused-var", "dup-decl", "missing-return", "bad-call-arity",
			"ill-typed-snippet", "ill-typed-snippet", "ill-typed-snippet", "ill-typed-snippet", "ill-typed-snippet", "drop-token", "drop-token"})
		faults = append(faults, kind)
		switch kind {
		case "delete-token":
			// remove one brace / paren somewhere
			idxs := indexesOfAny(f.Text, "{}()")
			if len(idxs) > 0 {
				i := idxs[rapid.IntRange(0, len(idxs)-1).Draw(rt, "tok")]
				f.Text = f.Text[:i] + f.Text[i+1:]
			}
		case "ill-typed-snippet":
			// declarations that parse but do not type-check, in the shapes checkers index into
			// 3-6 distinct snippets (their names are made unique by the snippet number and the fault number)
			perm := rapid.Permutation(seq(len(illTypedSnippets))).Draw(rt, "snippets")
			ns := rapid.IntRange(3, 6).Draw(rt, "nsnippets")
			label := "ill-typed-snippets"
			for _, sn := range perm[:ns] {
				label += fmt.Sprintf("#%d", sn)
				f.Text += "\n" + strings.ReplaceAll(illTypedSnippets[sn], "§", fmt.Sprintf("%dx%d", sn, k)) + "\n"
			}
			faults[len(faults)-1] = label
		case "drop-token":
			// remove one identifier, literal or operator token (the file may or may not parse after it)
			toks := tokenSpans(f.Text)
			if len(toks) > 0 {
				sp := toks[rapid.IntRange(0, len(toks)-1).Draw(rt, "droptok")]
				f.Text = f.Text[:sp[0]] + f.Text[sp[1]:]
			}
		case "undefined-ident":
			f.Text += "\nfunc vbroken1() int { return undefinedIdent + 1 }\n"
		case "type-mismatch":
			f.Text += "\nfunc vbroken2() int { var s string = 1; return s }\n"
		case "bad-import":
			f.Text = strings.Replace(f.Text, "\n\n", "\n\nimport \"verif.invalid/does/not/exist\"\n\n", 1)
		case "unresolved-import":
			f.Text = strings.Replace(f.Text, "\n\n", "\n\nimport _ \"../relative/bad\"\n\n", 1)
		case "mixed-package":
			ws.Files = append(ws.Files, e2e.File{Path: filepath.Dir(f.Path) + "/zz_other.go", Text: "package otherpkg\n\nfunc Z() {}\n"})
		case "empty-file":
			ws.Files = append(ws.Files, e2e.File{Path: filepath.Dir(f.Path) + "/zz_empty.go", Text: ""})
		case "truncate":
			f.Text = f.Text[:len(f.Text)*2/3]
		case "unused-var":
			f.Text += "\nfunc vbroken3() { x := 1 }\n"
		case "dup-decl":
			f.Text += "\nfunc vdup() {}\nfunc vdup() {}\nvar vdup int\n"
		case "missing-return":
			f.Text += "\nfunc vbroken4() (int, error) { if true { return } }\n"
		case "bad-call-arity":
			f.Text += "\nfunc vbroken5() { _ = append(); _ = len(); _ = new(); _ = make(); copy(); sortSliceX(1, 2, 3) }\nfunc sortSliceX() {}\n"
		}
	}
	ec.Fault = strings.Join(faults, "+")
	ec.WS = ws
	return ec
}

// illTypedSnippets parse, but go/types rejects them; the command still hands such files to checkers.
var illTypedSnippets = []string{
	"func vi§a() {\n\ta, b, c := 1, 2\n\t_, _, _ = a, b, c\n\tvar d, e, f = 1, 2\n\t_, _, _ = d, e, f\n\tconst g, h, i = 1, 2\n\t_, _, _ = g, h, i\n}",
	"func vi§b() {\n\tvar j, k = 1, 2, 3\n\t_, _ = j, k\n\tl, m := vi§b3()\n\t_, _ = l, m\n\tvar n, o int = vi§b3()\n\t_, _ = n, o\n}\nfunc vi§b3() (int, int, int) { return 1, 2, 3 }",
	"func vi§c(xs []int, m map[string]int) {\n\tfor a, b := range 5.5 {\n\t\t_, _ = a, b\n\t}\n\tfor a, b := range vi§c {\n\t\t_, _ = a, b\n\t}\n\tvar x int\n\tswitch y := x.(type) {\n\tcase int:\n\t\t_ = y\n\t}\n}",
	"type vi§S struct{ a int }\n\nfunc vi§d() {\n\t_ = []int{1: 1, 1: 2}\n\t_ = map[string]int{\"a\": 1, \"a\": 2}\n\t_ = vi§S{1, 2}\n\t_ = vi§S{zz: 1}\n\t_ = [2]int{1, 2, 3}\n\t_ = &vi§S{a: \"s\"}.a\n}",
	"func (x vi§Undefined) M() {}\nfunc (int) vi§M() {}\n\ntype vi§T struct{ vi§T }\ntype vi§I interface{ vi§I }\n\nfunc vi§e(t vi§T) { _ = t.vi§T.vi§T; _ = t.nosuch }",
	"func vi§f() int { return 1, 2 }\nfunc vi§g() (int, int) { return 1 }\nfunc vi§h() { return 1 }\nfunc vi§i() (a, b int) {\n\tif true {\n\t\ta := 1\n\t\t_ = a\n\t\treturn\n\t}\n\treturn a\n}",
	"func vi§j[T any](x T) T { var y T = 1; return y + x }\nfunc vi§k() { _ = vi§j[int, int](1); _ = vi§j(); var z vi§j; _ = z }",
	"func vi§l() {\n\tgoto missing\nouter:\n\tfor {\n\t\tbreak inner\n\t}\nouter:\n\tfor {\n\t\tcontinue outer\n\t}\n}",
	"const vi§m int8 = 1000\n\nfunc vi§n(x int) int {\n\t_ = 1 / 0\n\t_ = x << -1\n\t_ = \"a\" + 1\n\t_ = !x\n\t_ = -\"s\"\n\t_ = x == \"s\" || x == nil\n\tvar p *int = &x\n\t_ = p == 0 && *x > 0\n\treturn x.(int)\n}",
	"func vi§o(xs []int, s string, m map[string]int) {\n\t_ = append(xs, \"a\")\n\t_ = append(s, 1)\n\t_ = len(1)\n\t_ = cap(m)\n\t_ = copy(xs)\n\t_ = make([]int)\n\t_ = make(int, 1)\n\t_ = new(1)\n\tdelete(xs, 1)\n\t_ = xs[\"a\"]\n\t_ = s[1:2:3]\n\t_ = m[1]\n\tclose(xs)\n\tpanic()\n}",
	"func vi§p() {\n\tx := 1\n\tx := 2\n\tx, y = 3, 4\n\tx = x + y.z\n\tx += \"s\"\n\tx++\n\ty--\n\tvar f func()\n\tf = f()\n\tdefer f\n\tgo f()()\n}",
	"func vi§q(a interface{}, e error) {\n\tswitch a.(type) {\n\tcase int, int:\n\tcase vi§Nope:\n\tcase nil, nil:\n\t}\n\tswitch e {\n\tcase 1:\n\tcase \"x\":\n\t}\n\tif e {\n\t}\n\tfor e {\n\t}\n\tselect {\n\tcase x := <-a:\n\t\t_ = x\n\tcase a <- 1:\n\t}\n}",
	"type vi§R struct {\n\ta int\n\ta string\n\tb vi§Missing\n\tfunc()\n}\n\nfunc vi§r(r vi§R, p *vi§R, pp **vi§R) {\n\t_ = r.a + p.a + pp.a\n\t_ = (*r).a\n\t_ = *p.a\n\t_ = &r.b.c\n\tr.M()\n\tvi§R.M(r)\n\t(*vi§R).M(p)\n}",
	"func vi§s(f func(int) int, g func() (int, int)) {\n\t_ = f()\n\t_ = f(1, 2)\n\t_ = f(g())\n\t_ = f(\"s\")\n\tx := g()\n\t_ = x\n\ta, b, c := g()\n\t_, _, _ = a, b, c\n\t_ = func(int, int) {}(g(), 1)\n\t_ = func(xs ...int) {}(1, []int{}...)\n}",
	"func vi§t() {\n\tvar a [3]int\n\t_ = a[5]\n\t_ = a[-1]\n\t_ = a[1.5]\n\tvar s []int\n\t_ = s[len(a)]\n\t_ = s[len(s) : 1 : 0]\n\t_ = \"abc\"[10]\n\tvar m map[[]int]int\n\t_ = m[nil]\n\tvar c chan<- int\n\t_ = <-c\n}",
}

// tokenSpans returns the byte spans of identifier, literal and operator tokens.
func tokenSpans(src string) [][2]int {
	fset := token.NewFileSet()
	tf := fset.AddFile("x.go", -1, len(src))
	var sc scanner.Scanner
	sc.Init(tf, []byte(src), nil, 0)
	var out [][2]int
	for {
		pos, tok, lit := sc.Scan()
		if tok == token.EOF {
			break
		}
		if tok == token.SEMICOLON && lit == "\n" || tok == token.COMMENT {
			continue
		}
		n := len(lit)
		if n == 0 {
			n = len(tok.String())
		}
		off := tf.Offset(pos)
		if off+n <= len(src) {
			out = append(out, [2]int{off, off + n})
		}
	}
	return out
}

func indexesOfAny(s, chars string) []int {
	var out []int
	for i := 0; i < len(s); i++ {
		if strings.IndexByte(chars, s[i]) >= 0 {
			out = append(out, i)
		}
	}
	return out
}

func checkC19(t core.TB, rec *core.Recorder, env *gen.Env, ec *errCase) {
	rec.Eval()
	if e2e.BinDir() == "" {
		rec.Inconclusive("C19 needs VERIF_BIN")
		return
	}
	c16Counter++
	root := filepath.Join(env.Work, fmt.Sprintf("c19-%d", c16Counter))
	os.RemoveAll(root)
	if err := ec.WS.Materialize(root); err != nil {
		rec.Inconclusive("C19 materialize: " + err.Error())
		return
	}
	defer os.RemoveAll(root)
	analysis := strings.HasSuffix(ec.FrontEnd, "-analysis")
	var args []string
	if !analysis {
		args = append(args, "check", "-enableAll")
	} else {
		args = append(args, "-enable-all")
	}
	if ec.Kind == "invalid-config" {
		args = args[:0]
		if !analysis {
			args = append(args, "check")
		}
		switch ec.Class {
		case "go-version":
			args = append(args, "-go="+ec.Value)
		case "failOn":
			os.WriteFile(filepath.Join(root, "rules.go"), []byte("package gorules\n"), 0o644)
			args = append(args, "-enable=ruleguard,assignOp", "-@ruleguard.rules="+filepath.Join(root, "rules.go"), "-@ruleguard.failOn="+ec.Value)
			if analysis {
				args = append(args, "-disable=")
			}
		case "rules-no-match":
			good := filepath.Join(root, "goodrules.go")
			os.WriteFile(good, []byte("package gorules\n\nimport \"github.com/quasilyte/go-ruleguard/dsl\"\n\nfunc g(m dsl.Matcher) { m.Match(`f($x)`).Report(`f`) }\n"), 0o644)
			args = append(args, "-enable=ruleguard,assignOp", "-@ruleguard.rules="+strings.ReplaceAll(ec.Value, "GOOD", good))
			if analysis {
				args = append(args, "-disable=")
			}
		case "empty-selection":
			args = append(args, "-enable="+ec.Value)
			if analysis {
				args = append(args, "-disable=")
			}
		case "param-value":
			args = append(args, "-@hugeParam.sizeThreshold="+ec.Value)
		}
	}
	args = append(args, "./...")
	start := time.Now()
	res := e2e.Run(e2e.Bin(ec.FrontEnd), args, root, e2e.BaseEnv(), 150*time.Second)
	elapsed := time.Since(start)
	sig := "C19|" + ec.FrontEnd + "|"
	fail := func(clause, msg string) {
		cls := ec.Class
		if ec.Kind == "broken-package" {
			cls = "broken-package"
		}
		rec.Violation(t, sig+cls+"|"+clause, fmt.Sprintf("%s\ncommand: %s (%d packages)\n%s", msg, res.Cmd, ec.NPkgs, indentOut(res.Out, 30)), ec)
	}
	if res.TimedOut {
		// bounded time is part of the property for broken packages; re-confirm once
		// (a loaded machine can make one run slow: the repetition gets a much larger limit, and a
		// run that finishes then is judged like any other)
		res2 := e2e.Run(e2e.Bin(ec.FrontEnd), args, root, e2e.BaseEnv(), 10*time.Minute)
		if res2.TimedOut {
			fail("hang", "the front-end did not finish within 150 s, and not within 10 min when repeated")
			return
		}
		rec.Count("slow-run-repeated")
		res = res2
	}
	if e2e.HasCrashTrace(res.Out) {
		fail("crash|"+crashFrame(res.Out), "the front-end crashed (panic / fatal error / signal) instead of failing cleanly")
		return
	}
	if ec.Kind == "invalid-config" {
		lines, _ := e2e.ParseLines(res.Out)
		if res.Exit == 0 {
			fail("exit-zero", "invalid configuration accepted: exit status 0")
		}
		if len(lines) > 0 {
			fail("analysed-anyway", fmt.Sprintf("invalid configuration but %d diagnostic lines were printed (analysis ran with a partial set)", len(lines)))
		}
		low := strings.ToLower(res.Out)
		named := false
		for _, kw := range classKeywords[ec.Class] {
			if strings.Contains(low, kw) {
				named = true
			}
		}
		if !named && res.Exit != 0 {
			fail("message", "non-zero exit but the message does not name the problem")
		}
		if ec.NPkgs >= 2 {
			rec.Nontrivial(ec.Class, ec.Value, ec.FrontEnd, fmt.Sprint(ec.NPkgs))
			rec.Sample("invalid config", 3, map[string]any{"cmd": res.Cmd, "packages": ec.NPkgs, "exit": res.Exit, "out_head": head200(res.Out)})
		}
		rec.Count("config:" + ec.Class)
		return
	}
	// broken package: any exit status, no crash, bounded time
	rec.Count("fault:" + ec.Fault)
	rec.Nontrivial(ec.Fault, ec.FrontEnd, fmt.Sprint(ec.WS.Files))
	rec.Sample("broken package", 3, map[string]any{"fault": ec.Fault, "cmd": res.Cmd, "exit": res.Exit, "seconds": elapsed.Seconds(), "out_head": head200(res.Out)})
}

var reCrashFrame = regexp.MustCompile(`(?m)^(?:\s*\|\s*)?(?:github\.com/go-critic/go-critic/|main\.)([^\s(]+(?:\([^)]*\))?[^\s(]*)\(`)

// crashFrame returns the top-most go-critic frame of a crash trace (the call site that failed).
func crashFrame(out string) string {
	// the worker goroutine names the checker before it re-panics: "<checker>: error: <value>"
	if m := reCheckerError.FindStringSubmatch(out); m != nil {
		for _, in := range core.Embedded() {
			if in.Name == m[1] {
				// every rule-based checker fails inside the (third-party) rule engine
				return "checkers.runRuleguardEngine"
			}
		}
	}
	if m := reCrashFrame.FindStringSubmatch(out); m != nil {
		return m[1]
	}
	if m := reCheckerError.FindStringSubmatch(out); m != nil {
		return "checker:" + m[1]
	}
	return "?"
}

var reCheckerError = regexp.MustCompile(`(?m)^(?:\s*\|\s*)?(\w+): error: `)
