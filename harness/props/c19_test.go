package props

import (
	"encoding/json"
	"fmt"
	"os"
	"path/filepath"
	"regexp"
	"strings"
	"testing"
	"time"

	"pgregory.net/rapid"

	"verif/harness/core"
	"verif/harness/e2e"
	"verif/harness/gen"
)

type errCase struct {
	Kind     string         `json:"kind"` // invalid-config | broken-package
	FrontEnd string         `json:"front_end"`
	Class    string         `json:"class,omitempty"`
	Value    string         `json:"value,omitempty"`
	NPkgs    int            `json:"packages"`
	WS       *e2e.Workspace `json:"workspace"`
	Fault    string         `json:"fault,omitempty"`
}

func init() {
	register("C19", prop{
		Run: func(t *testing.T, rec *core.Recorder) {
			env, _ := sharedEnv(t)
			check(t, func(rt *rapid.T) {
				defer env.Release()
				ec := drawErrCase(rt)
				checkC19(rt, rec, env, ec)
			})
		},
		Replay: func(t *testing.T, rec *core.Recorder, raw json.RawMessage) {
			env, _ := sharedEnv(t)
			var ec errCase
			if err := json.Unmarshal(raw, &ec); err != nil {
				t.Fatal(err)
			}
			checkC19(t, rec, env, &ec)
		},
	})
}

var invalidConfigs = map[string][]string{
	"go-version":      {"abc", "1", "1.x", "x.21", "1.2.3", "1.", ".5", "go1", "1,18", "v1.18", "go1.x"},
	"failOn":          {"bogus", "dsl,bogus", "ALL", "import;dsl"},
	"rules-no-match":  {"/nonexistent/verif-*.go", "nomatch-*.go", "GOOD,nomatch-*.go", "GOOD,GOOD,/nonexistent/x.go"},
	"empty-selection": {"nosuchchecker", "#nosuchtag", ""},
	"param-value":     {"abc", "1.5", "", "0x", "true"},
}

var classKeywords = map[string][]string{
	"go-version":      {"version", "go"},
	"failOn":          {"failon", "invalid"},
	"rules-no-match":  {"no file matching", "rules"},
	"empty-selection": {"empty", "no checkers"},
	"param-value":     {"invalid", "parse", "sizethreshold"},
}

func simplePkg(name string, withDiag bool) string {
	body := "package " + name + "\n\nfunc F(xs []int) bool {\n"
	if withDiag {
		body += "\tx := 0\n\tx = x + 1\n\t_ = x\n\treturn len(xs) >= 0\n}\n"
	} else {
		body += "\treturn len(xs) == 0\n}\n"
	}
	return body
}

func drawErrCase(rt *rapid.T) *errCase {
	ec := &errCase{}
	ec.FrontEnd = pickT(rt, "frontend", []string{"go-critic", "gocritic", "go-critic-analysis", "gocritic-analysis"})
	ec.NPkgs = rapid.IntRange(1, 3).Draw(rt, "npkgs")
	names := []string{"alpha", "beta", "gamma"}
	if rapid.IntRange(0, 9).Draw(rt, "kind") < 5 {
		ec.Kind = "invalid-config"
		classes := []string{"go-version", "failOn", "rules-no-match", "empty-selection", "param-value"}
		ec.Class = pickT(rt, "class", classes)
		ec.Value = pickT(rt, "value", invalidConfigs[ec.Class])
		ws := &e2e.Workspace{}
		for i := 0; i < ec.NPkgs; i++ {
			ws.Files = append(ws.Files, e2e.File{Path: names[i] + "/f.go", Text: simplePkg(names[i], true)})
		}
		ec.WS = ws
		return ec
	}
	ec.Kind = "broken-package"
	ws, _ := gen.DrawWorkspace(rt, gen.WSOpts{MaxPkgs: ec.NPkgs, Tests: true, Kernels: e2eKernels()})
	// inject 1..2 faults
	nf := rapid.IntRange(1, 2).Draw(rt, "nfaults")
	var faults []string
	for k := 0; k < nf; k++ {
		fi := rapid.IntRange(0, len(ws.Files)-1).Draw(rt, "faultfile")
		f := &ws.Files[fi]
		kind := pickT(rt, "fault", []string{"delete-token", "undefined-ident", "type-mismatch", "bad-import", "unresolved-import", "mixed-package", "empty-file", "truncate", "unused-var", "dup-decl", "missing-return", "bad-call-arity"})
		faults = append(faults, kind)
		switch kind {
		case "delete-token":
			// remove one brace / paren somewhere
			idxs := indexesOfAny(f.Text, "{}()")
			if len(idxs) > 0 {
				i := idxs[rapid.IntRange(0, len(idxs)-1).Draw(rt, "tok")]
				f.Text = f.Text[:i] + f.Text[i+1:]
			}
		case "undefined-ident":
			f.Text += "\nfunc vbroken1() int { return undefinedIdent + 1 }\n"
		case "type-mismatch":
			f.Text += "\nfunc vbroken2() int { var s string = 1; return s }\n"
		case "bad-import":
			f.Text = strings.Replace(f.Text, "\n\n", "\n\nimport \"verif.invalid/does/not/exist\"\n\n", 1)
		case "unresolved-import":
			f.Text = strings.Replace(f.Text, "\n\n", "\n\nimport _ \"../relative/bad\"\n\n", 1)
		case "mixed-package":
			ws.Files = append(ws.Files, e2e.File{Path: filepath.Dir(f.Path) + "/zz_other.go", Text: "package otherpkg\n\nfunc Z() {}\n"})
		case "empty-file":
			ws.Files = append(ws.Files, e2e.File{Path: filepath.Dir(f.Path) + "/zz_empty.go", Text: ""})
		case "truncate":
			f.Text = f.Text[:len(f.Text)*2/3]
		case "unused-var":
			f.Text += "\nfunc vbroken3() { x := 1 }\n"
		case "dup-decl":
			f.Text += "\nfunc vdup() {}\nfunc vdup() {}\nvar vdup int\n"
		case "missing-return":
			f.Text += "\nfunc vbroken4() (int, error) { if true { return } }\n"
		case "bad-call-arity":
			f.Text += "\nfunc vbroken5() { _ = append(); _ = len(); _ = new(); _ = make(); copy(); sortSliceX(1, 2, 3) }\nfunc sortSliceX() {}\n"
		}
	}
	ec.Fault = strings.Join(faults, "+")
	ec.WS = ws
	return ec
}

func indexesOfAny(s, chars string) []int {
	var out []int
	for i := 0; i < len(s); i++ {
		if strings.IndexByte(chars, s[i]) >= 0 {
			out = append(out, i)
		}
	}
	return out
}

func checkC19(t core.TB, rec *core.Recorder, env *gen.Env, ec *errCase) {
	rec.Eval()
	if e2e.BinDir() == "" {
		rec.Inconclusive("C19 needs VERIF_BIN")
		return
	}
	c16Counter++
	root := filepath.Join(env.Work, fmt.Sprintf("c19-%d", c16Counter))
	os.RemoveAll(root)
	if err := ec.WS.Materialize(root); err != nil {
		rec.Inconclusive("C19 materialize: " + err.Error())
		return
	}
	defer os.RemoveAll(root)
	analysis := strings.HasSuffix(ec.FrontEnd, "-analysis")
	var args []string
	if !analysis {
		args = append(args, "check", "-enableAll")
	} else {
		args = append(args, "-enable-all")
	}
	if ec.Kind == "invalid-config" {
		args = args[:0]
		if !analysis {
			args = append(args, "check")
		}
		switch ec.Class {
		case "go-version":
			args = append(args, "-go="+ec.Value)
		case "failOn":
			os.WriteFile(filepath.Join(root, "rules.go"), []byte("package gorules\n"), 0o644)
			args = append(args, "-enable=ruleguard,assignOp", "-@ruleguard.rules="+filepath.Join(root, "rules.go"), "-@ruleguard.failOn="+ec.Value)
			if analysis {
				args = append(args, "-disable=")
			}
		case "rules-no-match":
			good := filepath.Join(root, "goodrules.go")
			os.WriteFile(good, []byte("package gorules\n\nimport \"github.com/quasilyte/go-ruleguard/dsl\"\n\nfunc g(m dsl.Matcher) { m.Match(`f($x)`).Report(`f`) }\n"), 0o644)
			args = append(args, "-enable=ruleguard,assignOp", "-@ruleguard.rules="+strings.ReplaceAll(ec.Value, "GOOD", good))
			if analysis {
				args = append(args, "-disable=")
			}
		case "empty-selection":
			args = append(args, "-enable="+ec.Value)
			if analysis {
				args = append(args, "-disable=")
			}
		case "param-value":
			args = append(args, "-@hugeParam.sizeThreshold="+ec.Value)
		}
	}
	args = append(args, "./...")
	start := time.Now()
	res := e2e.Run(e2e.Bin(ec.FrontEnd), args, root, e2e.BaseEnv(), 150*time.Second)
	elapsed := time.Since(start)
	sig := "C19|" + ec.FrontEnd + "|"
	fail := func(clause, msg string) {
		cls := ec.Class
		if ec.Kind == "broken-package" {
			cls = "broken-package"
		}
		rec.Violation(t, sig+cls+"|"+clause, fmt.Sprintf("%s\ncommand: %s (%d packages)\n%s", msg, res.Cmd, ec.NPkgs, indentOut(res.Out, 30)), ec)
	}
	if res.TimedOut {
		// bounded time is part of the property for broken packages; re-confirm once
		res2 := e2e.Run(e2e.Bin(ec.FrontEnd), args, root, e2e.BaseEnv(), 150*time.Second)
		if res2.TimedOut {
			fail("hang", "the front-end did not finish within 150 s (twice)")
		} else {
			rec.Inconclusive("C19: a run timed out once but not when repeated")
		}
		return
	}
	if e2e.HasCrashTrace(res.Out) {
		fail("crash|"+crashFrame(res.Out), "the front-end crashed (panic / fatal error / signal) instead of failing cleanly")
		return
	}
	if ec.Kind == "invalid-config" {
		lines, _ := e2e.ParseLines(res.Out)
		if res.Exit == 0 {
			fail("exit-zero", "invalid configuration accepted: exit status 0")
		}
		if len(lines) > 0 {
			fail("analysed-anyway", fmt.Sprintf("invalid configuration but %d diagnostic lines were printed (analysis ran with a partial set)", len(lines)))
		}
		low := strings.ToLower(res.Out)
		named := false
		for _, kw := range classKeywords[ec.Class] {
			if strings.Contains(low, kw) {
				named = true
			}
		}
		if !named && res.Exit != 0 {
			fail("message", "non-zero exit but the message does not name the problem")
		}
		if ec.NPkgs >= 2 {
			rec.Nontrivial(ec.Class, ec.Value, ec.FrontEnd, fmt.Sprint(ec.NPkgs))
			rec.Sample("invalid config", 3, map[string]any{"cmd": res.Cmd, "packages": ec.NPkgs, "exit": res.Exit, "out_head": head200(res.Out)})
		}
		rec.Count("config:" + ec.Class)
		return
	}
	// broken package: any exit status, no crash, bounded time
	rec.Count("fault:" + ec.Fault)
	rec.Nontrivial(ec.Fault, ec.FrontEnd, fmt.Sprint(ec.WS.Files))
	rec.Sample("broken package", 3, map[string]any{"fault": ec.Fault, "cmd": res.Cmd, "exit": res.Exit, "seconds": elapsed.Seconds(), "out_head": head200(res.Out)})
}

var reCrashFrame = regexp.MustCompile(`(?m)^(?:\s*\|\s*)?(?:github\.com/go-critic/go-critic/|main\.)([^\s(]+(?:\([^)]*\))?[^\s(]*)\(`)

// crashFrame returns the top-most go-critic frame of a crash trace (the call site that failed).
func crashFrame(out string) string {
	if m := reCrashFrame.FindStringSubmatch(out); m != nil {
		return m[1]
	}
	return "?"
}
