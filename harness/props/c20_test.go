package props

import (
	"encoding/json"
	"fmt"
	"go/ast"
	"go/token"
	"go/types"
	"os"
	"path/filepath"
	"regexp"
	"sort"
	"strings"
	"sync"
	"testing"

	"golang.org/x/tools/go/ast/astutil"
	"pgregory.net/rapid"

	"verif/harness/core"
	"verif/harness/gen"
)

// subject is a real API a checker's diagnostics are about.
type subject struct {
	Builtin string          // predeclared function or type name, or ""
	PkgPath string          // import path of the std package, or ""
	Names   map[string]bool // function/var names in that package
}

var stdShort = map[string]string{
	"strings": "strings", "bytes": "bytes", "fmt": "fmt", "regexp": "regexp", "sort": "sort",
	"filepath": "path/filepath", "flag": "flag", "log": "log", "os": "os", "http": "net/http",
	"httptest": "net/http/httptest", "time": "time", "sync": "sync", "io": "io", "utf8": "unicode/utf8",
	"unicode": "unicode", "draw": "image/draw", "image": "image", "errors": "errors", "math": "math",
	"reflect": "reflect", "maps": "maps", "slices": "slices", "cmp": "cmp", "types": "go/types", "sql": "database/sql",
}

var handSubjects = map[string][]subject{
	"appendAssign":   {{Builtin: "append"}},
	"appendCombine":  {{Builtin: "append"}},
	"rangeAppendAll": {{Builtin: "append"}},
	"newDeref":       {{Builtin: "new"}},
	"badRegexp":      {{PkgPath: "regexp", Names: set("Compile", "MustCompile", "CompilePOSIX", "MustCompilePOSIX")}},
	"regexpPattern":  {{PkgPath: "regexp", Names: set("Compile", "MustCompile", "CompilePOSIX", "MustCompilePOSIX", "MustCompilePosix")}},
	"regexpSimplify": {{PkgPath: "regexp", Names: set("Compile", "MustCompile", "CompilePOSIX", "MustCompilePOSIX")}},
	"sortSlice":      {{PkgPath: "sort", Names: set("Slice", "SliceStable")}},
	"filepathJoin":   {{PkgPath: "path/filepath", Names: set("Join")}},
	"exitAfterDefer": {{PkgPath: "log", Names: set("Fatal", "Fatalf", "Fatalln")}, {PkgPath: "os", Names: set("Exit")}},
	"flagName": {{PkgPath: "flag", Names: set("Bool", "Duration", "Float64", "String", "Int", "Int64", "Uint", "Uint64",
		"BoolVar", "DurationVar", "Float64Var", "StringVar", "IntVar", "Int64Var", "UintVar", "Uint64Var")}},
	"truncateCmp": {{Builtin: "int8"}, {Builtin: "int16"}, {Builtin: "int32"}, {Builtin: "uint8"}, {Builtin: "uint16"}, {Builtin: "uint32"}},
}

func set(xs ...string) map[string]bool {
	m := map[string]bool{}
	for _, x := range xs {
		m[x] = true
	}
	return m
}

var (
	subjOnce sync.Once
	subjAll  map[string][]subject
)

var (
	reRuleFunc = regexp.MustCompile(`(?m)^func (\w+)\(m dsl\.Matcher\) \{`)
	rePkgRef   = regexp.MustCompile(`\b([a-z][a-z0-9]*)\.([A-Z]\w*)`)
	reBuiltin  = regexp.MustCompile(`(^|[^\w.$])(len|append|copy|new|cap|string)\(`)
	reMatchArg = regexp.MustCompile("(?s)m\\.Match\\((.*?)\\)\\.?\\s*(?:\\n|Where|Report|Suggest|At)")
)

// subjects builds the table: hand-written checkers from handSubjects, rule groups from the
// packages/builtins spelled in the Match patterns of checkers/rules/rules.go.
func subjects() map[string][]subject {
	subjOnce.Do(func() {
		subjAll = map[string][]subject{}
		for k, v := range handSubjects {
			subjAll[k] = v
		}
		b, err := os.ReadFile(filepath.Join(core.RepoDir(), "checkers", "rules", "rules.go"))
		if err != nil {
			return
		}
		src := string(b)
		locs := reRuleFunc.FindAllStringSubmatchIndex(src, -1)
		for i, loc := range locs {
			name := src[loc[2]:loc[3]]
			end := len(src)
			if i+1 < len(locs) {
				end = locs[i+1][0]
			}
			body := src[loc[1]:end]
			// only the pattern strings of Match(...) calls
			var pats strings.Builder
			for _, line := range strings.Split(body, "\n") {
				t := strings.TrimSpace(line)
				if strings.HasPrefix(t, "m.Match(") || strings.HasPrefix(t, "`") || strings.HasPrefix(t, "\"") {
					// cut off trailing .Report/.Suggest/.Where on the same line
					for _, cut := range []string{").Report(", ").Suggest(", ").Where("} {
						if k := strings.Index(t, cut); k >= 0 {
							t = t[:k]
						}
					}
					pats.WriteString(t + "\n")
				}
			}
			p := pats.String()
			byPkg := map[string]map[string]bool{}
			for _, m := range rePkgRef.FindAllStringSubmatch(p, -1) {
				path, ok := stdShort[m[1]]
				if !ok {
					continue
				}
				if byPkg[path] == nil {
					byPkg[path] = map[string]bool{}
				}
				byPkg[path][m[2]] = true
			}
			var ss []subject
			paths := make([]string, 0, len(byPkg))
			for k := range byPkg {
				paths = append(paths, k)
			}
			sort.Strings(paths)
			for _, k := range paths {
				ss = append(ss, subject{PkgPath: k, Names: byPkg[k]})
			}
			seenB := map[string]bool{}
			for _, m := range reBuiltin.FindAllStringSubmatch(p, -1) {
				if !seenB[m[2]] {
					seenB[m[2]] = true
					ss = append(ss, subject{Builtin: m[2]})
				}
			}
			if len(ss) > 0 {
				subjAll[name] = ss
			}
		}
	})
	return subjAll
}

func init() {
	register("C20", prop{
		Run: func(t *testing.T, rec *core.Recorder) {
			env, all := sharedEnv(t)
			if len(subjects()) < 30 {
				rec.Inconclusive(fmt.Sprintf("subject table has only %d entries", len(subjects())))
			}
			check(t, func(rt *rapid.T) {
				defer env.Release()
				if rapid.IntRange(0, 9).Draw(rt, "reanalysis") == 0 {
					if rc := drawReanalysis(rt, rec, env); rc != nil {
						checkReanalysis(rt, rec, rc)
					}
					return
				}
				p, pc := gen.DrawProgram(rt, env, gen.DrawOpts{
					MinMuts:  1,
					MaxMuts:  3,
					Mutators: []string{"fake-import", "shadow-builtin-generic", "local-shadow", "rename-to-builtin", "rename-to-stdpkg", "fake-import", "shadow-builtin-generic", "parens", "forward-multi"},
				}, rejectCounter(rec))
				checkC20(rt, rec, all, p, pc)
			})
		},
		Replay: func(t *testing.T, rec *core.Recorder, raw json.RawMessage) {
			env, all := sharedEnv(t)
			var rc reanalysisCase
			if err := json.Unmarshal(raw, &rc); err == nil && rc.Kind == "reanalysis" {
				checkReanalysis(t, rec, &rc)
				return
			}
			var pc gen.ProgCase
			if err := json.Unmarshal(raw, &pc); err != nil {
				t.Fatal(err)
			}
			p := env.Load(pc.Files)
			if !p.OK() {
				t.Skipf("replay case is not well-typed any more: %s", p.ErrSummary())
			}
			checkC20(t, rec, all, p, &pc)
		},
	})
}

// reanalysisCase: a file is analysed, edited, and analysed again in the same process (a new
// session: fresh file set, fresh type information, fresh checkers, same file name) — what an
// editor integration or a long-running lint server does. In the first version the calls go to the
// real standard package; in the second the import is swapped for a user package with the same name
// and API, written with the same length, so that every call sits at the same position as before.
// Nothing remembered from the first session may make the second one report the namesake.
// notAboutAnAPI: message prefixes of rules that are not about a package API although their rule
// group also has rules about one.
var notAboutAnAPI = map[string]string{
	"dupArg": "suspicious method call with the same argument and receiver",
}

var c20CaseOverride any

type reanalysisCase struct {
	Kind   string        `json:"kind"`
	Pkg    string        `json:"std_package"`
	First  []core.Source `json:"first"`
	Second []core.Source `json:"second"`
}

func drawReanalysis(rt *rapid.T, rec *core.Recorder, env *gen.Env) *reanalysisCase {
	srcs := gen.DrawKernelFile(rt)
	if len(srcs) != 1 {
		return nil
	}
	text := srcs[0].Text
	var cands []string
	for _, std := range gen.FakeablePkgs {
		if gen.HasFake(std) && strings.Contains(text, "\t\""+std+"\"\n") {
			cands = append(cands, std)
		}
	}
	if len(cands) == 0 {
		return nil
	}
	std := pickT(rt, "reanalysisPkg", cands)
	line := "\t\"" + std + "\"\n"
	pad := "/*" + strings.Repeat("v", len(gen.FakePath(std))-len(std)-4) + "*/"
	rc := &reanalysisCase{Kind: "reanalysis", Pkg: std,
		First:  []core.Source{{Name: srcs[0].Name, Text: strings.Replace(text, line, "\t"+pad+"\""+std+"\"\n", 1)}},
		Second: []core.Source{{Name: srcs[0].Name, Text: strings.Replace(text, line, "\t\""+gen.FakePath(std)+"\"\n", 1)}},
	}
	if len(rc.First[0].Text) != len(rc.Second[0].Text) {
		return nil
	}
	return rc
}

func checkReanalysis(t core.TB, rec *core.Recorder, rc *reanalysisCase) {
	infos := core.HandWritten()
	// session 1
	env1 := gen.NewEnv()
	p1 := env1.Load(rc.First)
	if !p1.OK() {
		env1.Release()
		rec.Reject()
		rec.Count("rejected:reanalysis-first")
		return
	}
	set1, err := core.NewSet(env1.Fset, infos)
	if err != nil {
		env1.Release()
		rec.Inconclusive("C20 reanalysis: " + err.Error())
		return
	}
	n1 := 0
	for i := range p1.Files {
		ds, _ := set1.RunAll(p1, i)
		for _, d := range ds {
			n1 += len(d)
		}
	}
	env1.Release()
	// session 2: same file name, same offsets, the namesake package
	env2 := gen.NewEnv()
	defer env2.Release()
	p2 := env2.Load(rc.Second)
	if !p2.OK() {
		rec.Reject()
		rec.Count("rejected:reanalysis-second")
		return
	}
	if p1.Names[0] != p2.Names[0] {
		rec.Inconclusive("C20 reanalysis: the two sessions did not get the same file name: " + p1.Names[0] + " vs " + p2.Names[0])
		return
	}
	set2, err := core.NewSet(env2.Fset, infos)
	if err != nil {
		rec.Inconclusive("C20 reanalysis: " + err.Error())
		return
	}
	rec.Count("reanalysis")
	if n1 > 0 {
		rec.Nontrivial("reanalysis", rc.Pkg, rc.First[0].Text)
	}
	c20CaseOverride = rc
	defer func() { c20CaseOverride = nil }()
	checkC20(t, rec, set2, p2, &gen.ProgCase{Origin: "reanalysis:" + rc.Pkg, Muts: []string{"fake-import"}, Files: rc.Second})
}

type apiRef struct {
	subj     string // "append" or "path/filepath.Join"
	real     bool
	resolved string
}

// refsIn collects the references inside n that are spelled like a subject of ss.
func refsIn(p *core.Program, n ast.Node, ss []subject) []apiRef {
	var out []apiRef
	ast.Inspect(n, func(x ast.Node) bool {
		switch e := x.(type) {
		case *ast.CallExpr:
			if id, ok := astutil.Unparen(e.Fun).(*ast.Ident); ok {
				for _, s := range ss {
					if s.Builtin != "" && s.Builtin == id.Name {
						out = append(out, classifyIdent(p, id, s.Builtin))
					}
				}
			}
		case *ast.SelectorExpr:
			if id, ok := e.X.(*ast.Ident); ok {
				for _, s := range ss {
					if s.PkgPath == "" || !s.Names[e.Sel.Name] {
						continue
					}
					if id.Name != shortOf(s.PkgPath) {
						continue
					}
					r := apiRef{subj: s.PkgPath + "." + e.Sel.Name}
					switch o := p.Info.Uses[id].(type) {
					case *types.PkgName:
						r.real = o.Imported().Path() == s.PkgPath
						// a type name that (through an alias) denotes the real package's type is the real type
						if tn, ok := p.Info.Uses[e.Sel].(*types.TypeName); ok && !r.real {
							if named, ok := types.Unalias(tn.Type()).(*types.Named); ok && named.Obj().Pkg() != nil && named.Obj().Pkg().Path() == s.PkgPath {
								r.real = true
							}
						}
						r.resolved = "package " + o.Imported().Path()
						if gen.IsFakePath(o.Imported().Path()) {
							r.resolved = "user package with the same API"
						}
					case nil:
						r.resolved = "unresolved"
					default:
						r.resolved = fmt.Sprintf("%T", o)
					}
					out = append(out, r)
				}
			}
		}
		return true
	})
	return out
}

func shortOf(path string) string {
	if i := strings.LastIndexByte(path, '/'); i >= 0 {
		return path[i+1:]
	}
	return path
}

func classifyIdent(p *core.Program, id *ast.Ident, name string) apiRef {
	r := apiRef{subj: name}
	switch o := p.Info.Uses[id].(type) {
	case *types.Builtin:
		r.real = true
		r.resolved = "builtin"
	case *types.TypeName:
		r.real = o.Parent() == types.Universe
		r.resolved = "user type"
		if r.real {
			r.resolved = "predeclared type"
		}
	case *types.Func:
		r.resolved = "user function"
	case *types.Var:
		r.resolved = "user variable"
	case *types.Const:
		r.resolved = "user constant"
	case nil:
		r.resolved = "unresolved"
	default:
		r.resolved = fmt.Sprintf("user %T", o)
	}
	return r
}

// checkC20: for a diagnostic of an API-specific checker, the references spelled like the
// checker's subject inside the flagged node (or the call the flagged argument belongs to) must
// include the real API; if all of them are namesakes the diagnostic is about a namesake.
func checkC20(t core.TB, rec *core.Recorder, all *core.Set, p *core.Program, pc *gen.ProgCase) {
	rec.Eval()
	subj := subjects()
	redeclared := hasNamesake(p)
	for fi, f := range p.Files {
		diags, _ := all.RunAll(p, fi)
		names := make([]string, 0, len(diags))
		for n := range diags {
			names = append(names, n)
		}
		sort.Strings(names)
		tf := p.Fset.File(f.Pos())
		for _, name := range names {
			ss := subj[name]
			if len(ss) == 0 {
				continue
			}
			for _, d := range diags[name] {
				if d.Line == 0 || d.Offset < 0 || d.Offset > tf.Size() {
					continue
				}
				if notAboutAnAPI[name] != "" && strings.HasPrefix(d.Text, notAboutAnAPI[name]) {
					// a rule of the group that matches any method of that name (`$x.Compare($x)`), not the
					// package function the group's other rules are about
					rec.Count("generic-rule-not-judged:" + name)
					continue
				}
				pos := tf.Pos(d.Offset)
				path, _ := astutil.PathEnclosingInterval(f, pos, pos)
				// R: the outermost node that starts exactly at pos
				var R ast.Node
				ri := -1
				for i, n := range path {
					if n.Pos() == pos {
						if _, isFile := n.(*ast.File); !isFile {
							R, ri = n, i
						}
					}
				}
				if R == nil {
					continue
				}
				refs := refsIn(p, R, ss)
				// the call whose direct argument is flagged
				for i := ri + 1; i < len(path) && i <= ri+2; i++ {
					if call, ok := path[i].(*ast.CallExpr); ok {
						for _, a := range call.Args {
							if a.Pos() == pos {
								shallow := &ast.CallExpr{Fun: call.Fun, Lparen: call.Lparen, Rparen: call.Rparen}
								refs = append(refs, refsIn(p, shallow, ss)...)
							}
						}
					}
				}
				if len(refs) == 0 {
					rec.Count("no-spelled-reference:" + name)
					continue
				}
				anyReal := false
				for _, r := range refs {
					if r.real {
						anyReal = true
					}
				}
				if redeclared {
					rec.Nontrivial(name, pc.Key(), fmt.Sprint(d.Offset))
					rec.Count("judged:" + name)
				}
				if !anyReal {
					r := refs[0]
					var cs any = pc
					if c20CaseOverride != nil {
						cs = c20CaseOverride // the whole history, not only the last program
					}
					rec.Violation(t, "C20|"+name+"|"+r.subj+"|"+r.resolved,
						fmt.Sprintf("%s\nis about %s, but the flagged reference resolves to: %s", d.String(), r.subj, r.resolved), cs)
				}
			}
		}
	}
	if redeclared {
		rec.Sample("program with namesakes", 3, progSample(pc, nil))
	}
}

// hasNamesake reports whether the program re-declares a builtin or imports/declares something
// under the name of a std package.
func hasNamesake(p *core.Program) bool {
	for _, f := range p.Files {
		for _, is := range f.Imports {
			if strings.Contains(is.Path.Value, "veriffake/") {
				return true
			}
		}
	}
	for id, obj := range p.Info.Defs {
		if obj == nil {
			continue
		}
		if types.Universe.Lookup(id.Name) != nil {
			return true
		}
		if _, ok := stdShort[id.Name]; ok {
			if _, isPkg := obj.(*types.PkgName); !isPkg || id.Pos() != token.NoPos {
				return true
			}
		}
	}
	return false
}
