// Package props holds one executable check per listed property. The driver (/verif/run) compiles
// this package once per invocation (against /repo's working tree, via the module replace) and
// runs TestProp in several shard processes, or TestReplay for a saved case.
package props

import (
	"encoding/json"
	"os"
	"path/filepath"
	"runtime/debug"
	"sort"
	"sync"
	"testing"
	"time"

	"pgregory.net/rapid"

	"github.com/go-critic/go-critic/linter"

	"verif/harness/core"
	"verif/harness/gen"
)

// prop is the per-property entry: Run drives the generator (rapid), Replay re-executes one saved
// case without the generator library.
type prop struct {
	Run    func(t *testing.T, rec *core.Recorder)
	Replay func(t *testing.T, rec *core.Recorder, raw json.RawMessage)
}

var props = map[string]prop{}

func register(id string, p prop) { props[id] = p }

// TestProp runs the property named by VERIF_PROP.
func TestProp(t *testing.T) {
	id := os.Getenv("VERIF_PROP")
	p, ok := props[id]
	if !ok {
		t.Skipf("VERIF_PROP=%q: no such property", id)
	}
	debug.SetMaxStack(128 << 20)
	rec := core.NewRecorder(id)
	defer func() {
		rec.Flush(!t.Failed() || rec.HasFailure())
	}()
	p.Run(t, rec)
}

// replayFile is what /verif/replays/<id>/<hash>.json contains.
type replayFile struct {
	Property  string          `json:"property"`
	Signature string          `json:"signature"`
	Message   string          `json:"message"`
	Case      json.RawMessage `json:"case"`
}

// TestReplay re-executes the case in VERIF_REPLAY (a file, or a directory of files).
func TestReplay(t *testing.T) {
	path := os.Getenv("VERIF_REPLAY")
	if path == "" {
		t.Skip("VERIF_REPLAY not set")
	}
	var files []string
	if st, err := os.Stat(path); err == nil && st.IsDir() {
		files, _ = filepath.Glob(filepath.Join(path, "*.json"))
		sort.Strings(files)
	} else {
		files = []string{path}
	}
	debug.SetMaxStack(128 << 20)
	var rec *core.Recorder
	defer func() {
		if rec != nil {
			rec.Flush(true)
		}
	}()
	for _, f := range files {
		b, err := os.ReadFile(f)
		if err != nil {
			t.Fatalf("replay: %v", err)
		}
		var rf replayFile
		if err := json.Unmarshal(b, &rf); err != nil {
			t.Fatalf("replay %s: %v", f, err)
		}
		p, ok := props[rf.Property]
		if !ok || p.Replay == nil {
			t.Fatalf("replay: property %q has no replay", rf.Property)
		}
		if rec == nil {
			os.Setenv("VERIF_PROP", rf.Property)
			rec = core.NewRecorder(rf.Property)
		}
		t.Run(filepath.Base(f), func(t *testing.T) { p.Replay(t, rec, rf.Case) })
	}
}

// ---------------------------------------------------------------------------------------------
// watchdog: a case that does not finish within the suspect limit kills the process with exit
// status 3; the driver then confirms the case alone with a much larger limit before it counts.

var (
	wdMu    sync.Mutex
	wdTimer *time.Timer
)

func suspectLimit() time.Duration {
	if s := core.EnvInt("VERIF_HANG_S", 0); s > 0 {
		return time.Duration(s) * time.Second
	}
	return 45 * time.Second
}

func watchdogArm() {
	wdMu.Lock()
	defer wdMu.Unlock()
	if wdTimer != nil {
		wdTimer.Stop()
	}
	wdTimer = time.AfterFunc(suspectLimit(), func() {
		os.Stderr.WriteString("VERIF-WATCHDOG: case exceeded the suspect limit\n")
		os.Exit(3)
	})
}

func watchdogDisarm() {
	wdMu.Lock()
	defer wdMu.Unlock()
	if wdTimer != nil {
		wdTimer.Stop()
		wdTimer = nil
	}
}

// ---------------------------------------------------------------------------------------------
// shared process state

// flagMu serialises use of the analyzer's process-global flag set.
var flagMu sync.Mutex

var (
	envOnce sync.Once
	theEnv  *gen.Env
	allSet  *core.Set
)

// sharedEnv returns the process-wide environment and the long-lived set of all 107 checkers
// (the CLI life-cycle: created once, reused for every file).
func sharedEnv(t testing.TB) (*gen.Env, *core.Set) {
	envOnce.Do(func() {
		theEnv = gen.NewEnv()
		s, err := core.NewSet(theEnv.Fset, core.Registry())
		if err != nil {
			t.Fatalf("building the checker set: %v", err)
		}
		allSet = s
	})
	return theEnv, allSet
}

// rejectCounter returns an onReject callback that counts and samples rejections.
func rejectCounter(rec *core.Recorder) func(label, why string) {
	return func(label, why string) {
		rec.Reject()
		rec.Count("rejected:" + label)
		if len(why) > 600 {
			why = why[:600]
		}
		rec.Sample("rejected-by-typechecker", 2, map[string]string{"mutator": label, "why": why})
	}
}

// progSample is the compact form of a program case put in evidence.
func progSample(pc *gen.ProgCase, extra map[string]any) map[string]any {
	m := map[string]any{"origin": pc.Origin, "mutations": pc.Muts, "params": pc.Params}
	var files []map[string]string
	for _, f := range pc.Files {
		txt := f.Text
		if len(txt) > 1500 {
			txt = txt[len(txt)-1500:]
		}
		files = append(files, map[string]string{"name": f.Name, "tail": txt})
	}
	m["files"] = files
	for k, v := range extra {
		m[k] = v
	}
	return m
}

// drawSeeded wraps rapid.Check so that every property is written the same way.
func check(t *testing.T, fn func(rt *rapid.T)) {
	rapid.Check(t, fn)
}

// infosByName returns the registry entries for the named checkers.
func infosByName(names ...string) []*linter.CheckerInfo {
	var out []*linter.CheckerInfo
	for _, n := range names {
		if in := core.InfoByName(n); in != nil {
			out = append(out, in)
		}
	}
	return out
}
