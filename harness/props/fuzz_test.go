package props

// Native, coverage-guided fuzz targets (thorough tiers only). Each target decodes the fuzzer's
// bytes into the same structured case the rapid checks use and applies the same oracle
// (check<ID>), so a failing input is an ordinary replay case: the recorder writes it as a
// candidate, and the driver confirms it with a plain TestReplay in a fresh process before it
// counts. VERIF_PROP selects the oracle.
//
//   FuzzSource      bytes = one stand-alone Go file               (C01 C02 C05 C07 C09 C20)
//   FuzzKernelBody  bytes = declarations after the kernel prelude (same oracles; the prelude gives
//                   the fuzzer typed material, so far more inputs type-check)
//   FuzzSplice      bytes = text spliced as string constant / comment into a typed template
//                   (C01 C07: the regexp-, format- and comment-analysing checkers)
//   FuzzRegexp      bytes = a regexp pattern                      (C11)

import (
	"os"
	"regexp"
	"strconv"
	"strings"
	"sync"
	"testing"
	"unicode/utf8"

	"pgregory.net/rapid"

	"verif/harness/core"
	"verif/harness/e2e"
	"verif/harness/gen"
)

var (
	fuzzRecOnce sync.Once
	fuzzRec     *core.Recorder
)

func fuzzRecorder() *core.Recorder {
	fuzzRecOnce.Do(func() { fuzzRec = core.NewRecorder(os.Getenv("VERIF_PROP")) })
	return fuzzRec
}

// fuzzProgram applies the oracle of the selected property to a package given as source files.
func fuzzProgram(t *testing.T, files []core.Source, class string) {
	rec := fuzzRecorder()
	defer rec.Tick()
	env, all := sharedEnv(t)
	defer env.Release()
	pc := &gen.ProgCase{Origin: "fuzz", Files: files}
	if os.Getenv("VERIF_PROP") == "C19" {
		fuzzBroken(t, rec, env, all, pc, class)
		return
	}
	p := env.Load(pc.Files)
	if !p.OK() {
		rec.Reject()
		rec.Count("rejected:" + class)
		return
	}
	rec.Count("well-typed:" + class)
	switch os.Getenv("VERIF_PROP") {
	case "C01":
		defer watchdogDisarm()
		checkC01(t, rec, env, all, p, pc)
	case "C02":
		checkC02(t, rec, env, all, p, pc, false)
	case "C05":
		checkC05(t, rec, env, all, p, &orderCase{ProgCase: *pc, Order: pseudoOrder(len(all.Checkers), pc.Key())})
	case "C07":
		checkC07(t, rec, all, p, pc)
	case "C09":
		checkC09(t, rec, env, all, p, pc)
	case "C20":
		checkC20(t, rec, all, p, pc)
	default:
		t.Skip("VERIF_PROP does not name a property this target decides")
	}
}

// fuzzBroken (C19): inputs that do NOT parse or type-check cleanly. The check command hands such
// files to the checkers with whatever tree and type information exists; an in-process run with the
// tolerant loader is the fast filter, and only what the real binary then does with the same
// package counts (checkC19 runs it): a crash trace instead of a clean failure is the violation.
func fuzzBroken(t *testing.T, rec *core.Recorder, env *gen.Env, all *core.Set, pc *gen.ProgCase, class string) {
	p := env.LoadTolerant(pc.Files)
	if p == nil || len(p.Files) == 0 {
		rec.Reject()
		return
	}
	if p.OK() {
		rec.Count("well-typed(not the subject):" + class)
		return
	}
	rec.Count("broken:" + class)
	crashed := ""
	for i := range p.Files {
		if _, crashes := all.RunAll(p, i); len(crashes) > 0 {
			crashed = crashes[0].Checker + ": " + crashes[0].Value
			break
		}
	}
	rec.Nontrivial(pc.Key())
	if crashed == "" {
		rec.Eval()
		return
	}
	rec.Count("in-process-crash")
	ws := &e2e.Workspace{}
	for _, f := range pc.Files {
		ws.Files = append(ws.Files, e2e.File{Path: "alpha/" + f.Name, Text: f.Text})
	}
	ec := &errCase{Kind: "broken-package", FrontEnd: "go-critic", NPkgs: 1, WS: ws, Fault: "fuzz: " + crashed}
	// the real binary is run by the driver's replay of this candidate, not inside the fuzz worker
	rec.Candidate("C19|in-process|"+core.NormMsg(crashed), "in-process crash on a broken package: "+crashed, ec)
}

// fuzzWarm builds the shared environment and imports the standard packages the inputs use before
// the first input runs: Go's fuzz worker kills itself when one input takes more than 10 s, and a
// cold start (source-importing std) can take longer than that on a busy machine.
func fuzzWarm(f *testing.F) {
	env, _ := sharedEnv(f)
	p := env.Load([]core.Source{{Name: "warm.go", Text: gen.KernelPreamble}})
	if !p.OK() {
		f.Fatalf("warm-up package does not type-check: %s", p.ErrSummary())
	}
	env.Release()
}

// pseudoOrder derives a checker order from the input itself (the fuzzer owns all randomness).
func pseudoOrder(n int, key string) []int {
	out := seq(n)
	h := core.Hash(key)
	for i := n - 1; i > 0; i-- {
		h = h*6364136223846793005 + 1442695040888963407
		j := int((h >> 33) % uint64(i+1))
		out[i], out[j] = out[j], out[i]
	}
	return out
}

const fuzzMaxSource = 12 << 10

func FuzzSource(f *testing.F) {
	fuzzWarm(f)
	n := 0
	for _, cp := range core.Corpus() {
		for _, s := range cp.Srcs {
			if len(s.Text) <= fuzzMaxSource {
				f.Add([]byte(s.Text))
				n++
			}
		}
	}
	for i := 0; i < 40; i++ {
		srcs := rapid.Custom(func(t *rapid.T) []core.Source {
			t.Helper()
			_ = rapid.Bool().Draw(t, "x")
			return gen.DrawKernelFile(t)
		}).Example(i + 1)
		if len(srcs) == 1 && len(srcs[0].Text) <= fuzzMaxSource {
			f.Add([]byte(srcs[0].Text))
		}
	}
	f.Fuzz(func(t *testing.T, src []byte) {
		if len(src) > fuzzMaxSource || !utf8.Valid(src) {
			return
		}
		fuzzProgram(t, []core.Source{{Name: "fz.go", Text: string(src)}}, "source")
	})
}

// kernelBodyPrelude: the body file of FuzzKernelBody imports what the kernels use; the helper
// declarations live in the fixed sibling file h.go.
var kernelBodyPrelude = gen.KernelHeader

func FuzzKernelBody(f *testing.F) {
	fuzzWarm(f)
	for i, kr := range gen.Kernels {
		kr := kr
		body := rapid.Custom(func(t *rapid.T) string {
			_ = rapid.Bool().Draw(t, "x")
			return gen.RenderKernel(&gen.ExprGen{T: t, Avoid: map[string]bool{}}, kr, 0)
		}).Example(i + 1)
		f.Add([]byte(body))
	}
	f.Fuzz(func(t *testing.T, body []byte) {
		if len(body) > 4<<10 || !utf8.Valid(body) {
			return
		}
		// an import declaration or package clause inside the body cannot parse after the prelude;
		// that is fine (rejected)
		fuzzProgram(t, []core.Source{
			{Name: "h.go", Text: gen.KernelPreamble},
			{Name: "b.go", Text: kernelBodyPrelude + "\n" + string(body)},
		}, "kernel-body")
	})
}

// spliceTemplate puts the text at the places where checkers analyse constants and comments.
func spliceTemplate(text string, mode byte) (string, bool) {
	lit := strconv.Quote(text)
	raw := ""
	if !strings.ContainsAny(text, "`\r") {
		raw = "`" + text + "`"
	}
	comment := strings.NewReplacer("\n", " ", "\r", " ", "*/", "* /").Replace(text)
	var sb strings.Builder
	sb.WriteString("package p\n\nimport (\n\t\"fmt\"\n\t\"regexp\"\n\t\"strings\"\n\t\"errors\"\n\t\"flag\"\n\t\"os\"\n)\n\n")
	switch mode % 4 {
	case 0, 1:
		use := lit
		if mode%4 == 1 && raw != "" {
			use = raw
		}
		sb.WriteString("const c = " + use + "\n\n")
		sb.WriteString("func f(s string, xs []string, w *os.File) error {\n")
		sb.WriteString("\t_, _ = regexp.Compile(" + use + ")\n")
		sb.WriteString("\t_, _ = regexp.MatchString(" + use + ", s)\n")
		sb.WriteString("\t_ = strings.Replace(s, " + use + ", " + use + ", -1)\n")
		sb.WriteString("\t_ = strings.Split(s, " + use + ")\n")
		sb.WriteString("\t_ = strings.Trim(s, " + use + ")\n")
		sb.WriteString("\t_ = strings.TrimLeft(s, c)\n")
		sb.WriteString("\t_ = strings.Index(s, c) == -1\n")
		sb.WriteString("\t_ = fmt.Sprintf(" + use + ", s)\n")
		sb.WriteString("\t_ = fmt.Sprintf(" + use + ")\n")
		sb.WriteString("\tfmt.Fprintf(w, " + use + ", s, xs)\n")
		sb.WriteString("\t_ = flag.String(" + use + ", \"\", \"\")\n")
		sb.WriteString("\t_ = flag.Bool(c, false, " + use + ")\n")
		sb.WriteString("\t_ = os.Getenv(" + use + ")\n")
		sb.WriteString("\t_ = s == " + use + " || s == " + use + "\n")
		sb.WriteString("\tswitch s {\n\tcase " + use + ":\n\tcase \"other\":\n\t}\n")
		sb.WriteString("\t_ = map[string]int{" + use + ": 1, \"zz\": 2}\n")
		sb.WriteString("\t_ = s + " + use + " + s\n")
		sb.WriteString("\treturn errors.New(" + use + ")\n}\n\n")
		sb.WriteString("var re = regexp.MustCompile(" + use + ")\n")
		sb.WriteString("var _ = fmt.Errorf(" + use + ", re)\n")
	case 2:
		// comments at the places the comment walkers visit
		sb.WriteString("// " + comment + "\nfunc F(s string) {\n\t// " + comment + "\n\t_ = s //" + comment + "\n\t/* " + comment + " */\n}\n\n")
		sb.WriteString("//" + comment + "\ntype T struct {\n\tA int //" + comment + "\n\t// " + comment + "\n\tB string `" + strings.ReplaceAll(comment, "`", "'") + "`\n}\n\n")
		sb.WriteString("// Deprecated: " + comment + "\nfunc G() {}\n\n// G2 is deprecated, " + comment + "\nfunc G2() {}\n\n")
		sb.WriteString("//nolint:" + comment + "\nfunc H() {}\n\n//go:" + strings.TrimSpace(comment) + "\nfunc I() {}\n\n")
		sb.WriteString("// TODO" + comment + "\nvar _ = fmt.Sprint\nvar _ = regexp.MustCompile\nvar _ = strings.Index\nvar _ = errors.New\nvar _ = flag.Bool\nvar _ = os.Exit\n")
	case 3:
		// the file header and doc positions
		return "// " + comment + "\n\n// Package p " + comment + "\npackage p\n\n/* " + comment + " */\n\n// F " + comment + "\nfunc F() {} // " + comment + "\n", true
	}
	return sb.String(), true
}

// hostileRunes: ASCII, format verbs, regexp and comment metacharacters, and letters whose case
// mappings change the encoded length (K U+212A, Ω U+2126, Å U+212B, ẞ U+1E9E, İ U+0130, ſ U+017F, ǅ U+01C5),
// combining marks, zero-width and bidi characters, line/paragraph separators.
var hostileRunes = []rune("abcxyzABCXYZ0189 \t%sdvq+#-*_.,:;=/\\\"'`()[]{}<>|^$?!@&~" +
	"\u212a\u2126\u212b\u1e9e\u0130\u0131\u017f\u01c5\u00df\u00e9\u0301\u200b\u200d\u202e\u2028\u2029\u00a0\ufeff\U0001f600\u4e16")

var splicePrefixes = []string{"", "", "", "go:generate ", "go:build ", "nolint:", "nolint", "lint:ignore ", "line ", "export ", "extern ", "TODO", "TODO: ", "FIXME(", "Deprecated: ", "deprecated, ",
	"+build ", "go:embed ", "nosec ", "noinspection ", "region ", "sys ", "sysnb ", "goland:", "%", "^", "(?i)", "[", "\\"}

// drawSpliceProgram: a text over hostileRunes (0-40 runes, optionally after a directive-like prefix)
// spliced as constant / comment into the typed template.
func drawSpliceProgram(rt *rapid.T, env *gen.Env) (*core.Program, *gen.ProgCase, bool) {
	text := pickT(rt, "splicePrefix", splicePrefixes) + rapid.StringOfN(rapid.RuneFrom(hostileRunes), 0, 40, -1).Draw(rt, "spliceText")
	mode := byte(rapid.IntRange(0, 3).Draw(rt, "spliceMode"))
	src, ok := spliceTemplate(text, mode)
	if !ok {
		return nil, nil, false
	}
	pc := &gen.ProgCase{Origin: "splice", Muts: []string{"splice-" + strconv.Itoa(int(mode))}, Files: []core.Source{{Name: "sp.go", Text: src}}}
	p := env.Load(pc.Files)
	if !p.OK() {
		return nil, nil, false
	}
	return p, pc, true
}

func FuzzSplice(f *testing.F) {
	fuzzWarm(f)
	for _, s := range []string{"", "a", "%s", "%d%%", "^a|b$", "(a)(a)*", "[a-z", `\d{0,1}`, "Deprecated: x", "nolint:gocritic", "nolint", "TODO", "fmt.Println(1)",
		"x := 1", "return", "{}", "%!s(", "<nil>", "-name", "a=b", " ", "http://x", "https://a.b/c?d=%s", "$(x)", "FIXME(x): y", "(?i)a", "[[:alpha:]]", "a{1,}", "\\", "*/", "//", "\t", "é", "\x00"} {
		for m := byte(0); m < 4; m++ {
			f.Add([]byte(s), m)
		}
	}
	f.Fuzz(func(t *testing.T, text []byte, mode byte) {
		if len(text) > 200 || !utf8.Valid(text) {
			return
		}
		src, ok := spliceTemplate(string(text), mode)
		if !ok {
			return
		}
		fuzzProgram(t, []core.Source{{Name: "sp.go", Text: src}}, "splice-"+strconv.Itoa(int(mode%4)))
	})
}

func FuzzRegexp(f *testing.F) {
	fuzzWarm(f)
	for i := 0; i < 300; i++ {
		p := rapid.Custom(func(t *rapid.T) string {
			_ = rapid.Bool().Draw(t, "x")
			s, _ := (&gen.RegexGen{T: t}).Pattern()
			return s
		}).Example(i + 1)
		if p != "" {
			f.Add([]byte(p))
		}
	}
	f.Fuzz(func(t *testing.T, pat []byte) {
		rec := fuzzRecorder()
		defer rec.Tick()
		if len(pat) > 60 || !utf8.Valid(pat) {
			return
		}
		if _, err := regexp.Compile(string(pat)); err != nil {
			rec.Reject()
			return
		}
		env, _ := sharedEnv(t)
		defer env.Release()
		checkC11(t, rec, env, regexSet(t, env), &regexCase{Patterns: []string{string(pat)}, Raw: []bool{false}})
	})
}
