package props

import (
	"bytes"
	"go/token"
	"os"

	"github.com/quasilyte/go-ruleguard/ruleguard"
)

func ruleguardProbeLoad(path string) error {
	e := ruleguard.NewEngine()
	e.InferBuildContext()
	data, _ := os.ReadFile(path)
	return e.Load(&ruleguard.LoadContext{Fset: token.NewFileSet()}, path, bytes.NewReader(data))
}
