package props

import (
	"fmt"
	"os"
	"strings"
	"testing"
)

// TestProbeRegex prints the rewrite proposed for each line of VERIF_PATTERNS (development aid).
func TestProbeRegex(t *testing.T) {
	pats := os.Getenv("VERIF_PATTERNS")
	if pats == "" {
		t.Skip()
	}
	env, _ := sharedEnv(t)
	set := regexSet(t, env)
	rc := &regexCase{Patterns: strings.Split(pats, "\n")}
	props, err := proposals(env, set, rc)
	if err != nil {
		t.Fatal(err)
	}
	for i, a := range rc.Patterns {
		b, ok := props[i]
		k, d := "", ""
		if ok {
			k, d = regexDiff(a, b, nil)
		}
		fmt.Printf("%-28q -> %-22q proposed=%v %s %s\n", a, b, ok, k, d)
	}
}

func TestProbeClassify(t *testing.T) {
	pats := os.Getenv("VERIF_PATTERNS")
	if pats == "" {
		t.Skip()
	}
	env, _ := sharedEnv(t)
	set := regexSet(t, env)
	for _, a := range strings.Split(pats, "\n") {
		props, _ := proposals(env, set, &regexCase{Patterns: []string{a}})
		b := props[0]
		k, _ := regexDiff(a, b, nil)
		fmt.Printf("%q -> %q kind=%s min=%q class=%s\n", a, b, k, minimizeRegex(env, set, a, k), classifyRegexFinding(env, set, a, b, k))
	}
}

func TestProbeRuleFiles(t *testing.T) {
	if os.Getenv("VERIF_PROBE_RULES") == "" {
		t.Skip()
	}
	dir := t.TempDir()
	for _, k := range []string{"syntax", "dsl", "import", "empty", "valid"} {
		rf := ruleFile{Name: k + ".go", Kind: k, Groups: []ruleGroup{{Name: "g1", Tags: []string{"t1"}}}}
		p := dir + "/" + rf.Name
		os.WriteFile(p, []byte(renderRuleFile(rf)), 0o644)
		e := ruleguardProbeLoad(p)
		fmt.Printf("%-8s -> %T %v\n", k, e, e)
	}
}
