package props

import (
	"go/ast"
	"go/token"
	"strings"

	"github.com/go-toolsmith/astfmt"
	"golang.org/x/tools/go/ast/astutil"

	"verif/harness/core"
)

// suggestion is replacement code proposed by a diagnostic, located in the analysed file.
type suggestion struct {
	From, To int    // byte range of the code it replaces (A)
	A, B     string // original text (as in the source) and proposed text
	Origin   string // "fix" (machine-applicable) or "message" (quoted in the text)
	Node     ast.Node
}

// recipe: message = Prefix + A + Infix + B + Suffix, where A is the printed form (or the source
// text) of a node that starts at the diagnostic's position. Kind selects which nodes qualify.
type recipe struct {
	Prefix, Infix, Suffix string
	NoA                   bool   // the message does not quote A: message = Prefix + B + Suffix
	Kind                  string // expr | stmt | stmts3 | defer | assign | inside | functype | lit
}

// recipes is Appendix A of DESIGN.md. Only checkers that propose drop-in replacement code.
var recipes = map[string][]recipe{
	"boolExprSimplify": {{Prefix: "can simplify `", Infix: "` to `", Suffix: "`", Kind: "expr"}},
	"newDeref":         {{Prefix: "replace `", Infix: "` with `", Suffix: "`", Kind: "expr"}},
	"unlambda":         {{Prefix: "replace `", Infix: "` with `", Suffix: "`", Kind: "expr"}},
	"assignOp":         {{Prefix: "replace `", Infix: "` with `", Suffix: "`", Kind: "stmt"}},
	"emptyStringTest":  {{Prefix: "replace `", Infix: "` with `", Suffix: "`", Kind: "expr"}},
	"underef":          {{Prefix: "could simplify ", Infix: " to ", Suffix: "", Kind: "expr"}},
	"typeUnparen":      {{Prefix: "could simplify ", Infix: " to ", Suffix: "", Kind: "expr"}},
	"unslice":          {{Prefix: "could simplify ", Infix: " to ", Suffix: "", Kind: "expr"}},
	"sloppyLen":        {{Prefix: "", Infix: " can be ", Suffix: "", Kind: "expr"}},
	"yodaStyleExpr":    {{Prefix: "consider to change order in expression to ", NoA: true, Kind: "expr"}},
	"deferUnlambda":    {{Prefix: "can rewrite as `", Suffix: "`", NoA: true, Kind: "defer"}},
	"valSwap":          {{Prefix: "can re-write as `", Suffix: "`", NoA: true, Kind: "stmts3"}},
	"stringXbytes":     {{Prefix: "can simplify `", Infix: "` to `", Suffix: "`", Kind: "inside"}},
	"sloppyReassign":   {{Prefix: "re-assignment to `", Infix: "` can be replaced with `", Suffix: "`", Kind: "assign"}},
	"paramTypeCombine": {{Prefix: "", Infix: " could be replaced with ", Suffix: "", Kind: "functype"}},
	"octalLiteral":     {{Prefix: "use new octal literal style, ", NoA: true, Kind: "lit"}},
}

// nodesAt returns the nodes of f that start exactly at pos, outermost first, plus the
// enclosing path (innermost first) for context.
func nodesAt(f *ast.File, pos token.Pos) (at []ast.Node, path []ast.Node) {
	path, _ = astutil.PathEnclosingInterval(f, pos, pos)
	for i := len(path) - 1; i >= 0; i-- {
		if _, isFile := path[i].(*ast.File); isFile {
			continue
		}
		if path[i].Pos() == pos {
			at = append(at, path[i])
		}
	}
	return at, path
}

func srcText(p *core.Program, fi int, n ast.Node) string {
	a, b := p.Fset.PositionFor(n.Pos(), false).Offset, p.Fset.PositionFor(n.End(), false).Offset
	if a < 0 || b > len(p.Srcs[fi]) || a > b {
		return ""
	}
	return string(p.Srcs[fi][a:b])
}

// extractSuggestion recovers the replacement proposed by diagnostic d of checker on file fi.
// A nil result with a reason means "not checked" (never a violation).
func extractSuggestion(p *core.Program, fi int, checker string, d core.Diag) (*suggestion, string) {
	f := p.Files[fi]
	tf := p.Fset.File(f.Pos())
	if d.HasFix {
		if d.FixFrom < 0 || d.FixTo > len(p.Srcs[fi]) || d.FixFrom > d.FixTo {
			return nil, "fix range invalid"
		}
		s := &suggestion{From: d.FixFrom, To: d.FixTo, A: string(p.Srcs[fi][d.FixFrom:d.FixTo]), B: d.Fix, Origin: "fix"}
		// the node exactly covering the range, if any
		path, _ := astutil.PathEnclosingInterval(f, tf.Pos(d.FixFrom), tf.Pos(d.FixTo))
		for _, n := range path {
			if p.Fset.PositionFor(n.Pos(), false).Offset == d.FixFrom && p.Fset.PositionFor(n.End(), false).Offset == d.FixTo {
				s.Node = n
			}
		}
		return s, ""
	}
	rs := recipes[checker]
	if len(rs) == 0 {
		return nil, "no recipe"
	}
	if strings.Contains(d.Text, "<...>") {
		return nil, "message truncated by the rule engine"
	}
	if d.Offset < 0 || d.Offset > tf.Size() {
		return nil, "no position"
	}
	pos := tf.Pos(d.Offset)
	at, path := nodesAt(f, pos)
	for _, r := range rs {
		if !strings.HasPrefix(d.Text, r.Prefix) || !strings.HasSuffix(d.Text, r.Suffix) {
			continue
		}
		body := strings.TrimSuffix(strings.TrimPrefix(d.Text, r.Prefix), r.Suffix)
		mk := func(n ast.Node, end token.Pos, b string) *suggestion {
			from := p.Fset.PositionFor(n.Pos(), false).Offset
			to := p.Fset.PositionFor(end, false).Offset
			return &suggestion{From: from, To: to, A: string(p.Srcs[fi][from:to]), B: b, Origin: "message", Node: n}
		}
		switch r.Kind {
		case "expr", "stmt", "functype", "assign":
			for _, n := range at {
				switch r.Kind {
				case "expr":
					if _, ok := n.(ast.Expr); !ok {
						continue
					}
				case "stmt", "assign":
					if _, ok := n.(ast.Stmt); !ok {
						continue
					}
				}
				if r.NoA {
					if r.Kind == "expr" {
						// Yoda: B must be the operands of this very comparison in swapped order
						be, ok := n.(*ast.BinaryExpr)
						if !ok || srcText(p, fi, be.Y)+" "+be.Op.String()+" "+srcText(p, fi, be.X) != body {
							continue
						}
					}
					return mk(n, n.End(), body), ""
				}
				if r.Kind == "assign" {
					// message quotes the variable name, not A
					if i := strings.Index(body, r.Infix); i >= 0 {
						return mk(n, n.End(), body[i+len(r.Infix):]), ""
					}
					continue
				}
				target := n
				if r.Kind == "functype" {
					if fd, ok := n.(*ast.FuncDecl); ok {
						target = fd.Type
					} else if _, ok := n.(*ast.FuncType); !ok {
						continue
					}
				}
				for _, a := range []string{srcText(p, fi, target), astfmt.Sprint(target)} {
					if a != "" && strings.HasPrefix(body, a+r.Infix) {
						b := body[len(a)+len(r.Infix):]
						if fd, ok := n.(*ast.FuncDecl); ok && r.Kind == "functype" {
							// the printed form "func(a, b int) int" replaces the signature after the name
							if !strings.HasPrefix(b, "func(") {
								continue
							}
							sg := mk(fd.Type.Params, fd.Type.End(), strings.TrimPrefix(b, "func"))
							sg.Node = fd
							return sg, ""
						}
						return mk(target, target.End(), b), ""
					}
				}
			}
		case "lit":
			for _, n := range at {
				if bl, ok := n.(*ast.BasicLit); ok {
					return mk(bl, bl.End(), body), ""
				}
			}
		case "defer":
			for _, n := range at {
				if ds, ok := n.(*ast.DeferStmt); ok {
					return mk(ds, ds.End(), body), ""
				}
			}
		case "stmts3":
			// three consecutive statements starting at pos
			for _, n := range path {
				var list []ast.Stmt
				switch b := n.(type) {
				case *ast.BlockStmt:
					list = b.List
				case *ast.CaseClause:
					list = b.Body
				case *ast.CommClause:
					list = b.Body
				}
				for i, st := range list {
					if st.Pos() == pos && i+2 < len(list) {
						return mk(st, list[i+2].End(), body), ""
					}
				}
			}
		case "inside":
			i := strings.Index(body, r.Infix)
			if i < 0 {
				continue
			}
			a, b := body[:i], body[i+len(r.Infix):]
			for _, n := range at {
				txt := srcText(p, fi, n)
				if k := strings.Index(txt, a); k >= 0 && strings.Count(txt, a) == 1 {
					from := p.Fset.PositionFor(n.Pos(), false).Offset + k
					return &suggestion{From: from, To: from + len(a), A: a, B: b, Origin: "message", Node: nil}, ""
				}
			}
		}
	}
	return nil, "recipe not matched"
}

// applySuggestion returns the file text with the suggestion applied.
func applySuggestion(src []byte, s *suggestion) string {
	// a replacement must not fuse with the neighbouring token (`return(*t).n` -> `returnt.n` is an
	// artefact of textual substitution, not of the suggestion): an expression is parenthesised,
	// anything else gets a space. s.B is updated so that later offset arithmetic stays exact.
	isWord := func(c byte) bool {
		return c == '_' || c >= '0' && c <= '9' || c >= 'a' && c <= 'z' || c >= 'A' && c <= 'Z' || c >= 0x80
	}
	b := s.B
	fuseL := s.From > 0 && len(b) > 0 && isWord(src[s.From-1]) && isWord(b[0])
	fuseR := s.To < len(src) && len(b) > 0 && isWord(src[s.To]) && isWord(b[len(b)-1])
	if fuseL || fuseR {
		if _, isExpr := s.Node.(ast.Expr); isExpr {
			s.B = "(" + b + ")"
		} else {
			if fuseL {
				s.B = " " + s.B
			}
			if fuseR {
				s.B += " "
			}
		}
	}
	return string(src[:s.From]) + s.B + string(src[s.To:])
}
