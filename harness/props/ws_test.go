package props

import (
	"fmt"
	"go/parser"
	"go/token"
	"os"
	"path/filepath"
	"sort"
	"strings"

	"github.com/go-critic/go-critic/linter"

	"verif/harness/core"
	"verif/harness/e2e"
	"verif/harness/gen"
)

// selection is the configuration of checker selection in front-end neutral form.
type selection struct {
	EnableAll bool     `json:"enable_all"`
	Enable    []string `json:"enable"`  // nil = front-end default
	Disable   []string `json:"disable"` // nil = front-end default
	HasEnable bool     `json:"has_enable"`
	HasDis    bool     `json:"has_disable"`
}

var defaultOffTags = []string{"experimental", "opinionated", "performance", "security"}

// specRuns is the executable specification of C06, written from the property statement:
// runs(c) = (enableAll or name in E or tags meet E#) and name not in D and tags do not meet D#.
// With no enable list, E is the default set {c | no experimental/opinionated/performance/security tag}.
func specRuns(in *linter.CheckerInfo, sel selection) bool {
	enabled := sel.EnableAll
	if !enabled {
		if !sel.HasEnable {
			enabled = true
			for _, t := range defaultOffTags {
				if in.HasTag(t) {
					enabled = false
				}
			}
		} else {
			for _, e := range sel.Enable {
				if strings.HasPrefix(e, "#") {
					if in.HasTag(e[1:]) {
						enabled = true
					}
				} else if e == in.Name {
					enabled = true
				}
			}
		}
	}
	if !enabled {
		return false
	}
	if sel.HasDis {
		for _, d := range sel.Disable {
			if strings.HasPrefix(d, "#") {
				if in.HasTag(d[1:]) {
					return false
				}
			} else if d == in.Name {
				return false
			}
		}
	}
	return true
}

func specSet(sel selection) []*linter.CheckerInfo {
	var out []*linter.CheckerInfo
	for _, in := range core.Registry() {
		if specRuns(in, sel) {
			out = append(out, in)
		}
	}
	return out
}

// cliArgs renders a selection in the CLI dialect.
func (sel selection) cliArgs() []string {
	var a []string
	if sel.EnableAll {
		a = append(a, "-enableAll")
	}
	if sel.HasEnable {
		a = append(a, "-enable="+strings.Join(sel.Enable, ","))
	}
	if sel.HasDis {
		a = append(a, "-disable="+strings.Join(sel.Disable, ","))
	}
	return a
}

// analyzerArgs renders a selection in the analyzer dialect. The analyzer's documented defaults
// differ (-enable=#diagnostic,#style,#security -disable=<default>), so a selection that wants
// "the CLI default" passes both lists explicitly.
func (sel selection) analyzerArgs() []string {
	var a []string
	if sel.EnableAll {
		a = append(a, "-enable-all")
	}
	if sel.HasEnable {
		a = append(a, "-enable="+strings.Join(sel.Enable, ","))
	}
	if sel.HasDis {
		a = append(a, "-disable="+strings.Join(sel.Disable, ","))
	} else {
		a = append(a, "-disable=")
	}
	return a
}

// wsRun holds a materialised workspace.
type wsRun struct {
	Root string
	WS   *e2e.Workspace
	Meta *gen.WSMeta
}

func materialize(env *gen.Env, ws *e2e.Workspace, meta *gen.WSMeta, sub string) (*wsRun, error) {
	root := filepath.Join(env.Work, sub)
	os.RemoveAll(root)
	if err := ws.Materialize(root); err != nil {
		return nil, err
	}
	return &wsRun{Root: root, WS: ws, Meta: meta}, nil
}

// pkgGroups groups the workspace files by (dir, package clause).
func (r *wsRun) pkgGroups() map[string][]e2e.File {
	out := map[string][]e2e.File{}
	for _, f := range r.WS.Files {
		if !strings.HasSuffix(f.Path, ".go") {
			continue
		}
		fs := token.NewFileSet()
		af, err := parser.ParseFile(fs, f.Path, f.Text, parser.PackageClauseOnly)
		name := "?"
		if err == nil {
			name = af.Name.Name
		}
		key := filepath.Dir(f.Path) + "|" + name
		out[key] = append(out[key], f)
	}
	return out
}

type runCfg struct {
	Sel            selection         `json:"selection"`
	Params         map[string]string `json:"params,omitempty"`
	GoVersion      string            `json:"go_version,omitempty"`
	CheckTests     bool              `json:"check_tests"`
	CheckGenerated bool              `json:"check_generated"`
}

// expect computes in-process what the front-ends must print for the workspace: every package
// group is loaded from the materialised files (same paths), the selected checkers run with the
// given parameters, and the file filters are applied by the published conventions.
func (r *wsRun) expect(env *gen.Env, cfg runCfg) ([]e2e.Line, error) {
	var out []e2e.Line
	groups := r.pkgGroups()
	keys := make([]string, 0, len(groups))
	for k := range groups {
		keys = append(keys, k)
	}
	sort.Strings(keys)
	var err error
	gen.WithParams(cfg.Params, func() {
		var set *core.Set
		set, err = core.NewSet(env.Fset, specSet(cfg.Sel))
		if err != nil {
			return
		}
		if cfg.GoVersion != "" {
			set.Ctx.SetGoVersion(cfg.GoVersion)
		}
		for _, k := range keys {
			files := groups[k]
			dir := filepath.Join(r.Root, filepath.Dir(files[0].Path))
			var srcs []core.Source
			for _, f := range files {
				srcs = append(srcs, core.Source{Name: filepath.Base(f.Path), Text: f.Text})
			}
			p := core.Load(env.Fset, dir, "verif.ws/m/"+k, srcs, core.LoadOpts{NoWrite: true})
			if !p.OK() {
				err = fmt.Errorf("workspace package %s is not well-typed: %s", k, p.ErrSummary())
				return
			}
			for fi, f := range files {
				if !cfg.CheckTests && strings.HasSuffix(f.Path, "_test.go") {
					continue
				}
				if !cfg.CheckGenerated && r.Meta != nil && r.Meta.IsGenerated[f.Path] {
					continue
				}
				diags, crashes := set.RunAll(p, fi)
				if len(crashes) > 0 {
					err = fmt.Errorf("crash in expectation run: %s", crashes[0].Value)
					return
				}
				for name, ds := range diags {
					for _, d := range ds {
						out = append(out, e2e.Line{File: d.File, Line: d.Line, Col: d.Col, Checker: name, Msg: d.Text})
					}
				}
			}
			// release the file set entries of this group
			for _, af := range p.Files {
				if tf := env.Fset.File(af.Pos()); tf != nil {
					env.Fset.RemoveFile(tf)
				}
			}
		}
	})
	// every front-end prints a (file, line, column, checker, message) tuple once per run, also when a
	// checker produced it twice (C08)
	seen := map[string]bool{}
	uniq := out[:0]
	for _, l := range out {
		if !seen[l.Key()] {
			seen[l.Key()] = true
			uniq = append(uniq, l)
		}
	}
	return uniq, err
}

// paramArgs renders parameters as -@checker.param=value flags (same in both dialects).
func paramArgs(params map[string]string) []string {
	keys := make([]string, 0, len(params))
	for k := range params {
		keys = append(keys, k)
	}
	sort.Strings(keys)
	var out []string
	for _, k := range keys {
		out = append(out, "-@"+k+"="+params[k])
	}
	return out
}

// diffKeys returns elements only in a, only in b (multisets).
func diffKeys(a, b []string) (onlyA, onlyB []string) {
	m := map[string]int{}
	for _, x := range a {
		m[x]++
	}
	for _, x := range b {
		m[x]--
	}
	keys := make([]string, 0, len(m))
	for k := range m {
		keys = append(keys, k)
	}
	sort.Strings(keys)
	for _, k := range keys {
		for i := 0; i < m[k]; i++ {
			onlyA = append(onlyA, k)
		}
		for i := 0; i > m[k]; i-- {
			onlyB = append(onlyB, k)
		}
	}
	return
}

// e2eKernels: kernels usable in end-to-end comparisons (no //line directives, which re-name the
// file a location refers to).
func e2eKernels() []gen.Kernel {
	var out []gen.Kernel
	for _, k := range gen.Kernels {
		if strings.Contains(k.Text, "//line") {
			continue
		}
		if k.Checker == "odd-bodiless" {
			// a body-less function without an assembly file type-checks but does not compile:
			// go list reports the package as broken and the analysis driver skips it
			continue
		}
		out = append(out, k)
	}
	return out
}

func trimLines(xs []string, n int) []string {
	if len(xs) > n {
		return append(append([]string{}, xs[:n]...), fmt.Sprintf("… (%d more)", len(xs)-n))
	}
	return xs
}
