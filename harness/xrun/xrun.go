// Package xrun is the execution sandbox of the compile-and-run oracles: it renders a batch of
// cases into one main package in a scratch directory (outside /repo and /verif), builds it with
// the Go toolchain and runs it. The oracle is therefore the Go compiler and runtime, not a model.
package xrun

import (
	"bytes"
	"context"
	"fmt"
	"os"
	"os/exec"
	"path/filepath"
	"strings"
	"time"
)

// Result of building and running one generated program.
type Result struct {
	BuildOK  bool
	BuildOut string
	RunOut   string
	RunErr   string
	Exit     int
	TimedOut bool
}

func env() []string {
	keep := []string{"PATH", "HOME", "GOCACHE", "GOMODCACHE", "TMPDIR", "GOPATH"}
	var e []string
	for _, k := range keep {
		if v, ok := os.LookupEnv(k); ok {
			e = append(e, k+"="+v)
		}
	}
	return append(e, "GOFLAGS=-mod=mod", "GOPROXY=off", "GOSUMDB=off", "GOTOOLCHAIN=local", "CGO_ENABLED=0", "GOWORK=off")
}

// Run builds the files (name -> text; must contain package main) in dir and runs the binary.
func Run(dir string, files map[string]string, limit time.Duration) Result {
	var res Result
	os.RemoveAll(dir)
	if err := os.MkdirAll(dir, 0o755); err != nil {
		res.BuildOut = err.Error()
		return res
	}
	defer os.RemoveAll(dir)
	os.WriteFile(filepath.Join(dir, "go.mod"), []byte("module verif.x/run\n\ngo 1.21\n"), 0o644)
	for n, t := range files {
		if err := os.WriteFile(filepath.Join(dir, n), []byte(t), 0o644); err != nil {
			res.BuildOut = err.Error()
			return res
		}
	}
	bin := filepath.Join(dir, "prog.bin")
	ctx, cancel := context.WithTimeout(context.Background(), limit)
	defer cancel()
	build := exec.CommandContext(ctx, "go", "build", "-gcflags=-e", "-o", bin, ".")
	build.Dir = dir
	build.Env = env()
	out, err := build.CombinedOutput()
	res.BuildOut = string(out)
	if ctx.Err() == context.DeadlineExceeded {
		res.TimedOut = true
		return res
	}
	if err != nil {
		return res
	}
	res.BuildOK = true
	run := exec.CommandContext(ctx, bin)
	run.Dir = dir
	run.Env = env()
	var so, se bytes.Buffer
	run.Stdout, run.Stderr = &so, &se
	err = run.Run()
	res.RunOut, res.RunErr = so.String(), se.String()
	if ctx.Err() == context.DeadlineExceeded {
		res.TimedOut = true
	}
	if err != nil {
		if ee, ok := err.(*exec.ExitError); ok {
			res.Exit = ee.ExitCode()
		} else {
			res.Exit = -1
		}
	}
	return res
}

// BuildErrorsFor returns the compiler error lines that mention file (base name).
func BuildErrorsFor(out, file string) []string {
	var ls []string
	for _, l := range strings.Split(out, "\n") {
		if strings.Contains(l, file+":") {
			ls = append(ls, strings.TrimSpace(l))
		}
	}
	return ls
}

// Scratch returns a scratch directory name under base.
func Scratch(base string, n int) string { return filepath.Join(base, fmt.Sprintf("xrun-%d", n)) }
