#!/bin/sh
# Builds the driver and warms the Go build cache (offline; everything comes from disk).
set -e
cd "$(dirname "$0")"
export VERIF_ROOT="$(pwd)"
export GOFLAGS=-mod=mod GOPROXY=off GOSUMDB=off GOTOOLCHAIN=local CGO_ENABLED=0
mkdir -p bin evidence replays
(cd harness && go build -o ../bin/run ./cmd/run)
./bin/run build
