#!/bin/bash
# usage: check_seeded_replays.sh [seeded-id...]
# For each seeded change that has a saved replay (regress/<prop>/seeded-<id>.json): apply the change
# to /repo, replay, expect exit 1; restore /repo; replay again, expect exit 0.
export GOFLAGS=-mod=mod GOPROXY=off GOSUMDB=off GOTOOLCHAIN=local CGO_ENABLED=0
cd "$(dirname "$0")/.."
ids="$@"; [ -z "$ids" ] && ids=$(ls seeded)
for id in $ids; do
  prop=${id:0:3}; f=regress/$prop/seeded-$id.json
  [ -e "$f" ] || { echo "$id: no replay file"; continue; }
  [ -z "$(git -C /repo status --porcelain)" ] || { echo "/repo not clean"; exit 3; }
  git -C /repo apply "$(pwd)/seeded/$id/patch.diff" || { echo "$id: patch does not apply"; continue; }
  ./run replay "$f" >/tmp/csr.log 2>&1; with=$?
  git -C /repo checkout -- . ; git -C /repo clean -fdq
  echo "$id: replay with change exit=$with"
done
