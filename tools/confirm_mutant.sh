#!/bin/bash
# usage: confirm_mutant.sh <out-dir> <scratch-worktree>
# Confirms independently that a seeded change (a) builds, (b) passes the existing suite, (c) its
# demonstration fails with the change and passes without it. Prints a JSON summary line.
out="$1"; wt="$2"
export GOFLAGS=-mod=mod GOPROXY=off GOSUMDB=off GOTOOLCHAIN=local GOMODCACHE=/root/go/pkg/mod
export TMPDIR="$wt.tmp"; mkdir -p "$TMPDIR"
cd "$wt" || exit 3
git checkout -q -- . && git clean -fdq
# DEMO_DEST: space-separated package dirs (relative to the repo) the demo test file belongs to
# (default checkers). DEMO_SH=1: the demo is demo/run.sh <repo>.
dests="${DEMO_DEST:-checkers}"
install_demo() {
  demo_pkgs=""; demo_run=""
  if [ -n "$DEMO_SH" ]; then demo_pkgs="sh"; return; fi
  for f in "$out"/demo/*_test.go; do
    [ -e "$f" ] || continue
    for d in $dests; do cp "$f" "$d/"; done
    names=$(grep -oE '^func (Test\w+)' "$f" | awk '{print $2}' | paste -sd'|')
    demo_run="$names"
    demo_pkgs="./checkers/"
  done
  for d in "$out"/demo/*/; do
    [ -d "$d" ] || continue
    b=$(basename "$d")
    if ls "$d"/*_test.go >/dev/null 2>&1; then cp -r "$d" "./$b"; demo_pkgs="$demo_pkgs ./$b/"; fi
  done
}
run_demo() {
  if [ -n "$DEMO_SH" ]; then bash "$out/demo/${DEMO_SH_NAME:-run.sh}" "$wt" >"$TMPDIR/demo.log" 2>&1; return $?; fi
  rc=0
  if [ -n "$demo_run" ]; then for d in $dests; do go test -vet=off -count=1 -run "^($demo_run)\$" "./$d/" >>"$TMPDIR/demo.log" 2>&1 || rc=1; done; fi
  for p in $demo_pkgs; do [ "$p" = "./checkers/" ] && continue; go test -vet=off -count=1 "$p" >>"$TMPDIR/demo.log" 2>&1 || rc=1; done
  return $rc
}
install_demo
if [ -z "$demo_pkgs" ]; then echo "{\"out\":\"$out\",\"error\":\"no go test demo found\"}"; exit 3; fi
run_demo; clean_rc=$?
git checkout -q -- . && git clean -fdq
git apply "$out/patch.diff" || { echo "{\"out\":\"$out\",\"error\":\"patch does not apply\"}"; exit 3; }
go build ./... ; build_rc=$?
go test -vet=off -count=1 -timeout 25m ./... >"$TMPDIR/suite.log" 2>&1; suite_rc=$?
install_demo
run_demo; patched_rc=$?
git checkout -q -- . && git clean -fdq
echo "{\"out\":\"$out\",\"build_rc\":$build_rc,\"suite_rc_with_patch\":$suite_rc,\"demo_rc_clean\":$clean_rc,\"demo_rc_patched\":$patched_rc}"
grep -E "^(FAIL|---)" "$TMPDIR/suite.log" | head -5
rm -rf "$TMPDIR"
