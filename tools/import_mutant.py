#!/usr/bin/env python3
"""import_mutant.py <seeded-id> <agent-out-dir> '<confirm json>' '<ran>' '<caught_by>'
Copies a confirmed seeded change into /verif/seeded/<id>/ with a meta.json."""
import json, os, shutil, sys
sid, out, confirm, ran, caught = sys.argv[1:6]
dst = f"/verif/seeded/{sid}"
os.makedirs(dst, exist_ok=True)
shutil.copy(f"{out}/patch.diff", f"{dst}/patch.diff")
if os.path.isdir(f"{dst}/demo"): shutil.rmtree(f"{dst}/demo")
shutil.copytree(f"{out}/demo", f"{dst}/demo", ignore=shutil.ignore_patterns("tmp"))
am = json.load(open(f"{out}/meta.json"))
meta = {
  "id": sid,
  "property": am.get("property"),
  "summary": am.get("summary"),
  "needs_to_manifest": am.get("needs_to_manifest"),
  "demo_how_to_run": am.get("demo_how_to_run"),
  "files_changed": am.get("files_changed"),
  "origin": "written by an independent sub-agent that was given only the property text and a scratch worktree of /repo",
  "independently_confirmed": json.loads(confirm),
  "what_i_ran": ran,
  "caught_by": caught,
}
json.dump(meta, open(f"{dst}/meta.json", "w"), indent=1)
print("imported", dst)
