#!/usr/bin/env python3
"""Regenerates /verif/MANIFEST.json from the table below (kept next to the checks it describes)."""
import json, subprocess, os

ROOT = os.path.dirname(os.path.dirname(os.path.abspath(__file__)))

CHECKS = {
 "C01": dict(level="exploration", technique="property-based testing (rapid) + native coverage-guided fuzzing (go test -fuzz: FuzzSource, FuzzKernelBody, FuzzSplice): typed program mutation + kernel grammar + spliced hostile constants/comments, crash/hang oracle, process-death recovery",
   text="Randomised search over well-typed packages (maintainer examples and checker kernels under chained typed mutations: builtin/std namesakes, forwarding, bare returns, parentheses, generics, blanks, odd declarations) with all 107 checkers long-lived plus fresh parameterised checkers under random parameter values; oracle = no panic, no fatal error, no hang. One case in eight splices a hostile text (case-mapping oddities, zero-width, bidi, format verbs, regexp and directive prefixes) as constant / comment / tag into a typed template. Finds crash classes, cannot prove absence. Thorough tier adds native coverage-guided fuzzing (go test -fuzz) with the same oracle; every fuzz finding is confirmed by a plain replay in a fresh process.",
   note="go/types decides well-typedness; the in-process loader models the front-ends (cross-checked by C08/C16); hang = does not finish alone within 150 s.", ref="4/C01"),
 "C07": dict(level="exploration", technique="property-based testing (rapid) + native fuzzing (FuzzSource, FuzzKernelBody, FuzzSplice): same generators as C01, validity predicate over every diagnostic (independent go/scanner token table)",
   text="Every diagnostic produced over the generated programs is checked for a valid position inside the analysed file at a token/comment start, a sane fix range, and an artefact-free message; multi-file packages (declarations split over files, named constants declared elsewhere) expose positions taken from objects instead of syntax. Thorough tier adds native coverage-guided fuzzing (go test -fuzz) with the same oracle; every fuzz finding is confirmed by a plain replay in a fresh process.",
   note="go/scanner token starts are the reference; artefact list is fixed (%!, (PANIC=, <nil>, Bad*); artefacts that occur in the analysed source are accepted.", ref="4/C07"),
 "C02": dict(level="exploration", technique="property-based testing (rapid) + native fuzzing (FuzzKernelBody): repeated-execution differential (long-lived set x4, fresh re-parse, fresh checker sets, four fresh sets in parallel) with exact equality of ordered diagnostics",
   text="Each generated program (incl. import-heavy files aimed at map-iterating emitters) is analysed repeatedly within one process by long-lived and fresh checker sets; ordered diagnostics incl. fixes must be identical. Go randomises map iteration per loop, so order dependence shows up within a few repetitions.",
   note="In-process repetitions only in this check; cross-process equality is covered through the end-to-end checks (C08/C16) which compare binaries' output with in-process expectations.", ref="4/C02"),
 "C03": dict(level="exploration", technique="model-based stateful testing (rapid): generated visit histories on a long-lived checker set vs. fresh-instance reference model",
   text="Generated histories of (package,file) visits (single visits in any order and file-order sweeps over packages whose kernel files are cut at declaration boundaries) drive one long-lived checker set exactly like the CLI; after every visit each checker's diagnostics must equal those of a freshly constructed instance on the same file.",
   note="Reference = fresh checker on the same AST objects; embedded-rule checkers are sampled per case (all 107 in 1 of 20 cases).", ref="4/C03"),
 "C05": dict(level="exploration", technique="property-based testing (rapid) + native fuzzing (FuzzSource, FuzzKernelBody): before/after structural fingerprint invariant per Check + order-permutation metamorphic relation",
   text="A reflective fingerprint of the syntax tree (all fields, positions, comments, object links, node identity), a digest of types.Info, the shared context and the registry is compared around every single Check under a random checker order; results must equal registry order on a pristine re-parse.",
   note="Fingerprint determinism is self-tested in every case; types.Info digest is order-independent over node identity.", ref="4/C05"),
 "C11": dict(level="exploration", technique="property-based testing (rapid) + native coverage-guided fuzzing (FuzzRegexp): regexp grammar generator / byte-level pattern mutation + differential oracle (original vs rewritten pattern) on a small-scope exhaustive subject set; AST-level minimisation of failures",
   text="Grammar-generated patterns biased to every rewrite site of the simplifier; each proposed rewrite must compile, keep capture group count/names and give identical FindStringSubmatchIndex on all strings of length <= 4 over a 6-symbol alphabet drawn from the pattern plus random longer subjects. Batches of patterns go through one checker instance; a proposal that a fresh instance does not make is reported as history-dependent. Thorough tier adds native coverage-guided fuzzing (go test -fuzz) with the same oracle; every fuzz finding is confirmed by a plain replay in a fresh process.",
   note="Go's regexp package is the semantic reference; equivalence is tested, not proven; failures are minimised on the regexp AST and classified (class = signature).", ref="4/C11"),
 "C13": dict(level="exploration", technique="property-based testing (rapid): metamorphic relation under generated padding/permutation/append transformations + the examples' own line-bound expectations",
   text="Files of every maintainer example package and kernel files are cut into declaration chunks; function chunks are permuted, padding inserted (13 kinds incl. function values with goto/labels, busy functions, methods, generics), declarations appended; the checker's own expectations must still hold line by line and for all 107 checkers the per-declaration diagnostics (relative position, text) must be unchanged.",
   note="Transformed packages are re-type-checked; expectation binding replicates linttest/end2end.go including its two parameter overrides and directive stripping.", ref="4/C13"),
 "C20": dict(level="exploration", technique="property-based testing (rapid) + native fuzzing (FuzzSource, FuzzKernelBody): namesake-injecting typed mutators (generated same-API user packages, generic builtin shadows, local shadows), re-analysis sessions, go/types resolution oracle over a subject table",
   text="Programs in which builtins and std packages are re-declared with compatible signatures at package, import and local scope; every diagnostic of an API-specific checker is judged by resolving the flagged reference with go/types. One case in ten re-analyses an edited file in a new session (same file name and byte offsets, the import swapped for a namesake, fresh file set / type information / checkers): nothing remembered from the first session may make the namesake reported. Thorough tier adds native coverage-guided fuzzing (go test -fuzz) with the same oracle; every fuzz finding is confirmed by a plain replay in a fresh process.",
   note="Subject table: hand-written checkers by hand, rule groups derived from the packages/builtins spelled in rules.go patterns; only reports are judged (a missed diagnostic is never a violation); types aliased to the real ones count as real.", ref="4/C20"),
 "C17": dict(level="exploration", technique="exhaustive enumeration with recomputation oracle (re-compile rule source in memory, structural comparison; registry/documentation bijections; registration histories in fresh processes against a two-state model; source-vs-IR behavioural differential) + rapid-generated comparator self-test",
   text="All rule groups, rules, registered checkers and documentation rows are enumerated completely; the shipped IR is compared with a fresh in-memory compilation of the rule source, embedded checkers with their groups, overview rows and `doc` output with the live registry and the default-selection rule, 21 registration histories (list / construct checkers before and after the rule groups are loaded, each in a fresh process) with a model of what the registry must list, and the two engines (from source / from shipped IR) behaviourally over the example corpus.",
   note="The finite space is enumerated completely (exhaustive: true); irconv from the module cache is the compiler of record; the comparator is kept honest by random in-memory edits it must detect.", ref="4/C17"),
 "C18": dict(level="exploration", technique="model-based property testing (rapid): generated rule-file fault sequences x failOn x enable/disable lists against a reference model of the load policy and group algebra",
   text="Sequences of valid and faulty rule files (unreadable, syntax, DSL, import, empty), as lists or globs, under all failOn values, the legacy flag and enable/disable lists; the dynamic-rules checker is constructed and run in-process and compared with a reference model written from the statement (cells the statement leaves open accept both outcomes).",
   note="Runs in-process through linter.NewChecker with parameters set and restored per case; rule files and unreadable entries are materialised on disk.", ref="4/C18"),
 "C08": dict(level="exploration", technique="property-based differential testing (rapid): generated workspaces x dialect-neutral configurations through all four built binaries; in-process analyzer.Run vs direct linter run for suggested edits",
   text="Generated module trees (several packages, in-package and external tests, per-file import tables, optionally a shared package whose types the other packages use) are analysed by go-critic, gocritic, go-critic-analysis and gocritic-analysis with an equivalent configuration; normalised diagnostic multisets must be equal and duplicate-free; the analyzer's offered checker list must equal the CLI's; quick fixes must be forwarded unchanged.",
   note="Binaries are rebuilt from /repo's working tree on every run; workspaces import the standard library only; body-less functions are excluded (they type-check but do not compile).", ref="4/C08"),
 "C16": dict(level="exploration", technique="property-based end-to-end testing (rapid): generated workspaces, path layouts and flags through the built CLIs against an in-process reference (exit status, location resolution, file filters)",
   text="Workspaces in four path layouts (incl. the working directory's path occurring inside another path and a workspace under $GOPATH; directory names with %, unicode and punctuation), ten header-comment variants on ordinary and test files, all exit codes and filter flags; exit status, printed locations (must resolve to real files) and the multiset of lines are compared with an in-process expectation for exactly the files that should be analysed.",
   note="Generated status is decided by the Go convention (ast.IsGenerated semantics re-implemented by construction of the headers); expectation uses the spec's selection function.", ref="4/C16"),
 "C06": dict(level="exploration", technique="model-based property testing (rapid): generated enable/disable/tag lists through the built front-ends against an executable specification of the selection algebra; inert-parameter metamorphic check",
   text="Lists over all checker names, tags, unknown/empty/duplicate entries with a focus checker placed independently in each list by name and by tag; the enabled set printed by each front-end (-v / -debug-init) must equal the specification for all 107 checkers at once; empty selections must be errors; diagnostics must be attributed to selected checkers; parameters of unselected checkers (any registered parameter with a value of its type, bogus ruleguard rules/failOn) must be inert: initialisation succeeds and the run prints the same lines as without them; every registered parameter is a cell of its own (changing one never moves another); no-flag sets of all four binaries equal the default rule.",
   note="Specification written from the property statement, not from the code; the analyzer is judged against its own documented flag defaults; whitespace-padded entries are not generated.", ref="4/C06"),
 "C19": dict(level="exploration", technique="property-based fault injection (rapid) + native fuzzing of inputs that do not type-check (FuzzSource, FuzzKernelBody; in-process tolerant run as filter, real binary as judge): invalid configurations x front-ends x package counts, and workspaces with injected syntax/type/import faults, through the built binaries with a crash/hang/clean-failure oracle",
   text="Five classes of invalid configuration (11 malformed -go spellings, unknown failOn, unmatched rules patterns incl. after a matching one, empty selections, unparsable parameter values) on all four binaries over 1-3 packages must exit non-zero with a message naming the problem, no crash trace and no diagnostics; packages with 1-2 injected faults of 14 kinds (syntax damage, token drops, 15 ill-typed declaration snippets, import and package-clause faults) must never crash or hang any front-end. Thorough tier: byte-level mutants of the example corpus and kernels that do NOT type-check are run in-process with the tolerant loader; every in-process crash is replayed through the real binary, which decides.",
   note="Crash = panic/fatal/signal trace in the output; hang = not finished within 150 s twice; crash signatures carry the failing call site.", ref="4/C19"),
 "C14": dict(level="exploration", technique="property-based testing (rapid): boundary kernels of exact measure, threshold-pair monotonicity relation, compile-and-run size oracle (unsafe.Sizeof), reference model of a boolean parameter (truncateCmp.skipArchDependent over plain/defined/alias operand types), CLI/analyzer-vs-in-process parameter plumbing differential",
   text="For the seven numeric thresholds, constructs of exactly known measure are analysed at thresholds around the measure and must fire exactly at the documented boundary and once; on generated programs a relaxed threshold may never add diagnostics; byte sizes quoted by hugeParam equal unsafe.Sizeof of a compiled program over random struct types; truncateCmp.skipArchDependent removes exactly the comparisons whose operand has underlying type int/uint/uintptr however the type is written; parameter values given through CLI/analyzer flags behave like the in-process registry override; every registered parameter is a cell of its own.",
   note="Boundary direction is taken from the usage strings; unsafe.Sizeof of the local Go toolchain is the size reference.", ref="4/C14"),
 "C15": dict(level="exploration", technique="property-based testing (rapid): generated programs x target versions against an API-introduction index rebuilt from GOROOT/api; exhaustive grid check of the version parser/comparator",
   text="Every std function/method/literal syntax recommended in a message or fix (called or merely named, and not quoted from the source) is looked up in GOROOT/api and must not be newer than the configured target (1.13..1.25, both spellings); no version behaves as the newest; the parser is compared with numeric ordering on the full 31x31 grid.",
   note="GOROOT/api is the reference; methods are looked up by the minimum version over receiver types (can only under-report).", ref="4/C15"),
 "C09": dict(level="exploration", technique="property-based testing (rapid) + native fuzzing (FuzzKernelBody): generated programs with marker statements; every machine fix and every recipe-matched quoted rewrite is applied and judged by parser, go/types, marker survival, type preservation and re-analysis",
   text="Over generated programs (kernels of every fix-carrying / code-quoting checker under mutations) each suggested replacement is substituted: it must parse in the replaced category, the file must parse and type-check, unrelated marker statements must survive, the replaced expression must keep its type, and re-analysis of the fixed file must not repeat the diagnostic.",
   note="Quoted rewrites are recovered by per-checker recipes (message = prefix+A+infix+B+suffix); unmatched recipes are 'not checked'; unused imports after an edit are tolerated, naming an unimported package is not.", ref="4/C09"),
 "C10": dict(level="exploration", technique="property-based differential testing (rapid) with a compile-and-run oracle: original vs rewritten kernel function executed by the Go toolchain over complete grids, comparing results, side-effect traces and panics",
   text="85 executable kernels (20 rewrite families, pure and tracing operands of int/uint/float/named/string/[]byte types, all literal spellings) are analysed; every rewrite proposed by an equivalence-claiming checker is applied and both versions are compiled into one program and run over the cross product of the relevant parameter grids (incl. NaN, +-Inf, +-0, empty/nil values); results, trace order and panics must match.",
   note="The Go compiler and runtime are the reference; integer overflow inputs are excluded by grid construction; variants that do not compile are C09's subject.", ref="4/C10"),
 "C12": dict(level="exploration", technique="property-based testing (rapid) with an instrumented compile-and-run oracle: the flagged expression of every definite-claim diagnostic is wrapped in a claim monitor and executed over complete grids",
   text="Kernels for sloppyLen, badCond, offBy1, nilValReturn, dupSubExpr/dupArg and caseOrder (incl. user-defined len, impure operands with changing values, maps, nil cases) are analysed; each definite claim (always true/false, always panics, always nil, same value, unreachable case) is compiled into a monitor and must hold in every execution of the grid.",
   note="Only definite claims are judged ('suspicious' is not a claim); the Go runtime is the reference.", ref="4/C12"),
 "C04": dict(level="exploration", technique="randomised schedule exploration under the Go race detector (rapid): generated start orders and concurrency bounds over a replica of the CLI's per-file fan-out, parallel go/analysis passes, and -race CLI binaries, each compared with the sequential run",
   text="Race-instrumented builds: a replica of checkFile runs the 107 long-lived checkers concurrently under generated start orders and semaphore sizes; 2-6 analyzer passes run in parallel goroutines with the cache enabled (first batch of a process on a cold cache; same source in all or every other pass; wide files of 24-40 kernels so that most checkers work at once); the -race CLI runs with several -concurrency / GOMAXPROCS values. Results must equal the sequential run and the race detector must stay silent.",
   note="Interleavings are sampled, not enumerated: absence of races is shown only for the executions explored; the race detector's happens-before analysis reports conflicting accesses that occur in a run largely independent of timing. The analyzer-parallel part constructs all hand-written checkers plus four rule groups per pass.", ref="4/C04 and 5"),
}

NOT_YET = {}

def main():
    props = [json.loads(l) for l in open(os.path.join(ROOT, "properties.jsonl"))]
    checks, na = [], []
    for p in props:
        pid = p["id"]
        if pid in CHECKS:
            c = CHECKS[pid]
            checks.append({
                "property_id": pid,
                "quick_cmd": f"./run check {pid} quick",
                "thorough_cmd": f"./run check {pid} thorough",
                "evidence_file": f"/verif/evidence/{pid}.json",
                "replay_cmd_template": "./run replay {path}",
                "engine": "harness",
                "level_claimed": {"category": c["level"], "text": c["text"], "design_ref": "DESIGN.md section " + c["ref"]},
                "level_note": c["note"],
                "technique": c["technique"],
            })
        else:
            na.append({"property_id": pid, "reason": NOT_YET.get(pid, "check not built yet in this revision of /verif (work in progress; see DESIGN.md section 8 for the build order)")})
    hooks_commits = []
    try:
        out = subprocess.run(["git", "-C", "/repo", "log", "--format=%H %s"], capture_output=True, text=True).stdout
        hooks_commits = [l.split()[0] for l in out.splitlines() if " hook:" in l or l.split(" ",1)[1].startswith("verif hook")]
    except Exception:
        pass
    m = {
        "version": 1,
        "setup_cmd": "./setup.sh",
        "hooks": {
            "guard": "verif",
            "enable": "go build/test -tags verif (files guarded by //go:build verif)",
            "baseline_off_cmd": "cd /repo && go test -mod=mod -vet=off -count=1 -timeout 25m ./...",
            "source_commits": hooks_commits,
            "add_only": True,
        },
        "engines": [{"name": "harness", "path": "/verif/harness", "serves_properties": sorted(CHECKS), "kind_free_text": "Go module (rapid v1.3.0 property-based tests + native fuzz targets) driven by /verif/run; rebuilt against /repo's working tree on every invocation via a module replace"}],
        "checks": checks,
        "notes": "Exit status of every command: 0 held, 1 violation (VIOLATION line + replay file), 2 inconclusive/infrastructure. Known findings: /verif/known_findings.json. Regression inputs (replay tier): /verif/regress/<id>/.",
        "not_applicable": na,
    }
    json.dump(m, open(os.path.join(ROOT, "MANIFEST.json"), "w"), indent=1)
    print("wrote MANIFEST.json:", len(checks), "checks,", len(na), "not claimed")

if __name__ == "__main__":
    main()
