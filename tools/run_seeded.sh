#!/bin/bash
# usage: run_seeded.sh [tier] [ids...]  — applies each seeded change to /repo, runs the quick check of the
# property it breaks (and any extra checks listed in seeded/<id>/also), restores /repo, and prints one
# summary line per change. /repo must be clean; nothing else may use /repo meanwhile.
tier="${1:-quick}"; shift
cd /verif
ids="$@"; [ -z "$ids" ] && ids=$(ls seeded | grep -v RESULTS)
# evidence written while a seeded change is applied must never be committed: keep the old files
evbak=$(mktemp -d); cp -a evidence/. "$evbak"/
trap 'git -C /repo checkout -- . ; git -C /repo clean -fdq; cp -a "$evbak"/. /verif/evidence/; rm -rf "$evbak"' EXIT INT TERM
for id in $ids; do
  prop=$(python3 -c "import json;print(json.load(open('/verif/seeded/$id/meta.json'))['property'])")
  also=""; [ -f seeded/$id/also ] && also=$(cat seeded/$id/also)
  if ! git -C /repo diff --quiet; then echo "$id: /repo dirty, abort"; exit 3; fi
  if ! git -C /repo apply /verif/seeded/$id/patch.diff; then echo "$id: patch does not apply"; continue; fi
  for p in $prop $also; do
    out=$(./run check $p $tier 2>&1); rc=$?
    sigs=$(echo "$out" | grep "^  signature:" | sed 's/^  signature: //' | head -3 | paste -sd';')
    echo "$id check=$p exit=$rc $(echo "$out" | grep -E "^C[0-9]+ (quick|thorough):" | sed 's/.*wall=/wall=/') signatures=[$sigs]"
  done
  git -C /repo checkout -- . ; git -C /repo clean -fdq
done
