#!/bin/bash
# usage: run_seeded_wt.sh [tier] [ids...] — like run_seeded.sh but in scratch mode: every seeded change is
# applied in a scratch worktree ($MUT_WT, default /tmp/wt/mut2) and the owning check (plus seeded/<id>/also)
# runs against that tree; /repo and /verif/evidence are never touched. Prints one line per (change, check).
# With SAVE_REPLAYS=1 the first replay of a catching run is copied to regress/<prop>/seeded-<id>.json if absent.
tier="${1:-quick}"; shift
cd "$(dirname "$0")/.."
export MUT_WT="${MUT_WT:-/tmp/wt/mut2}" VERIF_SCRATCH_OUT="${VERIF_SCRATCH_OUT:-/tmp/verif-scratch2}"
ids="$@"; [ -z "$ids" ] && ids=$(ls seeded | grep -v RESULTS)
for id in $ids; do
  prop=$(python3 -c "import json;print(json.load(open('seeded/$id/meta.json'))['property'])")
  also=""; [ -f seeded/$id/also ] && also=$(cat seeded/$id/also)
  for p in $prop $also; do
    out=$(tools/trymutant_wt.sh "$(pwd)/seeded/$id/patch.diff" $tier $p 2>&1)
    v=$(echo "$out" | grep -c "^VIOLATION")
    sig=$(echo "$out" | grep "^  signature:" | head -2 | sed 's/^  signature: //' | paste -sd';')
    echo "$id check=$p caught=$([ $v -gt 0 ] && echo yes || echo NO) $(echo "$out" | grep -E "^C[0-9]+ (quick|thorough):" | sed 's/.*wall=/wall=/') signatures=[$sig]"
    if [ -n "$SAVE_REPLAYS" ] && [ $v -gt 0 ] && [ ! -e regress/$p/seeded-$id.json ]; then
      rp=$(echo "$out" | grep "^VIOLATION" | head -1 | sed 's/.*replay=//')
      case "$rp" in */regress/*) ;; *) mkdir -p regress/$p; cp "$rp" regress/$p/seeded-$id.json ;; esac
    fi
  done
done
