#!/bin/bash
# usage: sweep.sh <tier> <seed> [<seed>...] — runs every registered check at each seed on the current
# trees and prints one line per run (exit status, counts) plus any VIOLATION/INCONCLUSIVE lines.
tier="$1"; shift
cd /verif
for seed in "$@"; do
  for p in $(python3 -c "import json;print(' '.join(c['property_id'] for c in json.load(open('/verif/MANIFEST.json'))['checks']))"); do
    out=$(VERIF_SEED=$seed ./run check $p $tier 2>&1); rc=$?
    echo "seed=$seed $p exit=$rc $(echo "$out" | grep -E "^C[0-9]+ (quick|thorough):")"
    echo "$out" | grep -E "^(VIOLATION|  signature|INCONCLUSIVE)" | cut -c1-300
  done
done
