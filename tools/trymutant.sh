#!/bin/sh
# usage: trymutant.sh <patch.diff> <tier> <prop> [<prop>...]
# Applies a seeded change to /repo, runs the named checks, and always restores /repo.
patch="$1"; tier="$2"; shift 2
cd /verif
if ! git -C /repo diff --quiet; then echo "repo dirty"; exit 3; fi
git -C /repo apply "$patch" || { echo "patch does not apply"; exit 3; }
# evidence written while a seeded change is applied must never be committed: keep the old files
evbak=$(mktemp -d); cp -a evidence/. "$evbak"/
trap 'git -C /repo checkout -- . ; git -C /repo clean -fdq; cp -a "$evbak"/. /verif/evidence/; rm -rf "$evbak"' EXIT INT TERM
for p in "$@"; do
  ./run check "$p" "$tier" 2>&1 | grep -E "^(VIOLATION|  signature|C[0-9]+ |INCONC|OK)" | head -12
  echo "== $p exit status: (see lines above)"
done
