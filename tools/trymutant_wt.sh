#!/bin/bash
# usage: trymutant_wt.sh <patch.diff> <tier> <prop> [<prop>...]
# Like trymutant.sh, but never touches /repo: the change is applied in a scratch worktree
# (created on demand at $MUT_WT, default /tmp/wt/mut) and the checks run in the driver's scratch mode
# (VERIF_REPO), which writes evidence/replays under $VERIF_SCRATCH_OUT (default $TMPDIR/verif-scratch).
patch="$(realpath "$1")"; tier="$2"; shift 2
wt="${MUT_WT:-/tmp/wt/mut}"
cd "$(dirname "$0")/.."
[ -d "$wt" ] || git -C /repo worktree add --detach "$wt" HEAD -q || exit 3
git -C "$wt" checkout -q --detach "${MUT_BASE:-$(git -C /repo rev-parse HEAD)}" && git -C "$wt" checkout -q -- . && git -C "$wt" clean -fdq
git -C "$wt" apply "$patch" || { echo "patch does not apply"; exit 3; }
for p in "$@"; do
  VERIF_REPO="$wt" ./run check "$p" "$tier" 2>&1 | grep -E "^(VIOLATION|  signature|C[0-9]+ |INCONC|OK)" | head -12
  echo "== $p done"
done
git -C "$wt" checkout -q -- . ; git -C "$wt" clean -fdq
